#!/bin/bash
# usage: run_baseline.sh <tree>   -- runs the pinned test-suite in <tree> (a checkout of mystic)
# and reports every pinned-stable test that does not pass.  exit 0 iff all 213 pass.
set -u
TREE="${1:-/repo}"
HERE="$(cd "$(dirname "$0")" && pwd)"
OUT="$(mktemp -d)"
cd "$TREE" || exit 2
[ -f mystic/__info__.py ] || cp /repo/mystic/__info__.py mystic/__info__.py
PYTHONPATH="$TREE" timeout 1500 /venv/bin/python -m pytest mystic/tests -q -p no:cacheprovider --timeout=900 \
   --continue-on-collection-errors --junitxml="$OUT/j.xml" >"$OUT/log" 2>&1
/venv/bin/python - "$OUT/j.xml" "$HERE/stable_pass.txt" "$TREE" <<'PY'
import sys, xml.etree.ElementTree as ET
j, stable, tree = sys.argv[1:4]
want=[l.strip() for l in open(stable) if l.strip()]
res={}
for tc in ET.parse(j).getroot().iter('testcase'):
    name=tc.get('classname','')+'::'+tc.get('name')
    ok = not any(ch.tag in ('failure','error','skipped') for ch in tc)
    res[name]=ok
bad=[w for w in want if not res.get(w,False)]
print("tree:",tree,"stable tests:",len(want),"passing:",len(want)-len(bad))
for b in bad: print("NOT PASSING:",b)
sys.exit(1 if bad else 0)
PY
rc=$?
rm -rf "$OUT"
exit $rc
