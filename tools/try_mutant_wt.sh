#!/bin/bash
# usage: try_mutant_wt.sh <seeded name> <property id> [more ids...]
# like try_mutant.sh, but never touches /repo's working tree: the seeded change is applied in a scratch worktree of /repo HEAD
# (outside /repo and /verif, removed afterwards) and the quick checks are pointed at it with VERIF_REPO.  Safe to run in parallel.
N="$1"; shift
P=/verif/seeded/$N/patch.diff
W=/tmp/mt-$N
git -C /repo worktree remove --force $W >/dev/null 2>&1
git -C /repo worktree add -q --detach $W HEAD || exit 2
trap 'git -C /repo worktree remove --force '$W' >/dev/null 2>&1' EXIT
cp /repo/mystic/__info__.py $W/mystic/ 2>/dev/null
( cd $W && { git apply "$P" 2>/dev/null || git apply --3way "$P" >/dev/null 2>&1; } ) || { echo "MUTANT $N: patch does not apply"; exit 2; }
cd /verif
for id in "$@"; do
  out=$(VERIF_REPO=$W timeout -s TERM -k 10 900 bin/check $id --tier quick --no-evidence ${EXTRA:-} 2>&1); rc=$?
  rp=$(echo "$out" | grep -m1 '^VIOLATION property' | sed 's/.*replay=//')
  rstat="-"
  if [ -n "$rp" ]; then
    rout=$(VERIF_REPO=$W timeout 600 bin/check $id --replay "$rp" 2>&1); rrc=$?
    if [ $rrc -eq 1 ] && ! echo "$rout" | grep -q "digest differs"; then rstat="replay-ok"; else rstat="REPLAY-BAD(rc=$rrc)"; fi
  fi
  echo "MUTANT $N check=$id rc=$rc $rstat :: $(echo "$out" | grep -m1 '^VIOLATION' ) $(echo "$out" | grep -A1 -m1 '^VIOLATION' | tail -1 | cut -c1-160)"
done
