#!/venv/bin/python
"""usage: mkmeta.py <round> <origin text> <confirm log>... [--matrix <matrix log>]
writes seeded/<name>/meta.json for every 'MUTANT <name> ...' line of the confirm logs (tools/confirm_mutant.sh output); the
'caught_by' field is taken from the matrix log (tools/try_mutant*.sh output) when given."""
import sys, re, json, os
args = sys.argv[1:]
rnd = int(args[0]); origin = args[1]; logs = []; matrix = None
i = 2
while i < len(args):
    if args[i] == '--matrix': matrix = args[i + 1]; i += 2
    else: logs.append(args[i]); i += 1
caught = {}
if matrix:
    for l in open(matrix):
        m = re.match(r'MUTANT (\S+) check=(\S+) rc=(\d+) (\S+) :: (.*)', l)
        if m: caught[m.group(1)] = m.groups()[1:]
for lg in logs:
    for l in open(lg):
        m = re.match(r'MUTANT (\S+) apply=(\S+) demo_clean_rc=(\d+) demo_mut_rc=(\d+) baseline213=(\S+) :: (.*)', l)
        if not m: continue
        name, how, c, mu, b, out = m.groups()
        d = os.path.join('/verif/seeded', name)
        notes = open(os.path.join(d, 'notes.md')).read()
        title = notes.splitlines()[0].lstrip('# ').strip()
        need = None
        secs = re.split(r'\n(?=#+ )', notes)
        for s in secs:
            h = s.splitlines()[0].lower()
            if 'need' in h or 'manifest' in h or 'trigger' in h: need = ' '.join(s.splitlines()[1:]).strip(); break
        if not need:
            k = notes.lower().find('need')
            need = ' '.join(notes[max(0, k - 200):k + 900].split()) if k >= 0 else ' '.join(notes.split())[:900]
        confirmed = (how != 'FAILED' and c == '0' and mu != '0' and b == '1')
        meta = {'id': name, 'property': name[:3], 'round': rnd, 'origin': origin, 'title': title,
                'needs_to_manifest': ' '.join(need.split())[:900], 'confirmed': confirmed,
                'confirmation': {'tool': 'tools/confirm_mutant.sh %s (scratch worktree of /repo HEAD, removed afterwards)' % name,
                                 'patch_applies': how, 'demo_rc_without_patch': int(c), 'demo_rc_with_patch': int(mu),
                                 'pinned_213_pass_with_patch': b == '1', 'demo_output_with_patch': out.strip()[:240]}}
        if name in caught:
            chk, rc, rstat, first = caught[name]
            if rc == '1' and rstat == 'replay-ok':
                meta['caught_by'] = 'bin/check %s --tier quick (tools/try_mutant_wt.sh %s %s: exit 1, replay file reproduces with the same digest)' % (chk, name, chk)
            else:
                meta['caught_by'] = None; meta['matrix'] = 'check=%s rc=%s %s' % (chk, rc, rstat)
        old = os.path.join(d, 'meta.json')
        if os.path.exists(old):
            o = json.load(open(old))
            for k in ('live', 'not_live_reason', 'first_pass'):
                if k in o: meta[k] = o[k]
        json.dump(meta, open(old, 'w'), indent=1)
        print(name, confirmed, meta.get('caught_by') is not None)
