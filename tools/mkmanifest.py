#!/venv/bin/python
"""(re)generate /verif/MANIFEST.json from the property modules that exist"""
import json, os, sys, importlib
V = os.path.dirname(os.path.dirname(os.path.abspath(__file__)))
sys.path.insert(0, V)
props = [json.loads(l) for l in open(os.path.join(V, 'properties.jsonl'))]
NA = {
 'C12': "pure text-to-text functions (simplify/solve/linear_symbolic/symbolic_bounds): no schedule, clock, file, signal, map, shared state or crash point in the anchored code; deciding it is input generation against an independent evaluator, not simulation",
 'C13': "generate_constraint(generate_solvers(text)) compiles text to a pure x -> x' function; no state, RNG, I/O or time for a simulator to own",
 'C14': "generate_conditions/generate_penalty yield pure functions of (text, x); no seam",
 'C15': "penalty closures are a deterministic in-memory counter that no solver advances; 'histories' are argument sequences of a single-threaded pure state machine: model-based input generation, not a fault/schedule space",
 'C16': "constraint/array transforms are stateless functions of (x, settings); the RNG-using modes are exercised as installed range/constraint modes inside the C02/C03 simulations, but the transform contract itself is an input property",
 'C18': "closed-form weighted statistics and their inverse constructions; pure numerics with no nondeterminism or fault surface",
 'C19': "in-memory container round trips (flatten/load/unflatten, pack/unpack) and explicit sums; pure",
}
TECH = "deterministic simulation with fault injection: seeded search over operation/fault/schedule plans against reference-model oracles"
checks = []; na = []
for p in props:
    pid = p['id']
    try:
        m = importlib.import_module('mysticsim.props.%s' % pid.lower())
    except ImportError:
        m = None
    if m is None or getattr(m, 'DISABLED', False):
        na.append({'property_id': pid, 'reason': NA.get(pid, "not claimed yet: the simulation check for this property is still under construction (see DESIGN.md section 7)")})
        continue
    c = {'property_id': pid,
         'quick_cmd': "timeout 900 bin/check %s --tier quick" % pid,
         'thorough_cmd': "timeout 7200 bin/check %s --tier thorough" % pid,
         'evidence_file': "/verif/evidence/%s.json" % pid,
         'replay_cmd_template': "bin/check %s --replay {path}" % pid,
         'engine': 'mysticsim',
         'level_claimed': {'category': m.LEVEL, 'text': m.LEVEL_TEXT, 'design_ref': 'DESIGN.md section 7, %s' % pid},
         'level_note': m.LEVEL_NOTE,
         'technique': getattr(m, 'TECHNIQUE', TECH)}
    checks.append(c)
man = {
 'version': 1,
 'setup_cmd': "/venv/bin/python -c \"import sys; sys.path.insert(0,'/repo'); import mystic, numpy, dill, sympy\" && mkdir -p /verif/evidence /verif/replays",
 'hooks': {'guard': 'MYSTIC_VERIF', 'enable': "no source hooks were needed: the simulator takes over module globals (open, time.*, mystic._signal.signal, builtins.input, random) and mystic's own injection points (SetMapper, monitors, callbacks) from outside; checks import mystic straight from /repo's working tree",
           'baseline_off_cmd': "cd /repo && /venv/bin/python -m pytest -ra -q -p no:cacheprovider --timeout=900 --continue-on-collection-errors mystic/tests",
           'source_commits': [], 'add_only': True},
 'engines': [{'name': 'mysticsim', 'path': '/verif/mysticsim', 'serves_properties': [c['property_id'] for c in checks],
              'kind_free_text': 'single-process deterministic simulator written for this task: seeded plan generator, scripted environment peers (cost/constraints/penalty/callback/map/clock/SIGINT+tty/file system/process death), reference-model oracles, ddmin minimiser, replay files'}],
 'checks': checks,
 'not_applicable': na,
 'notes': "exit 0 = held on everything explored (KNOWN-FINDING lines allowed, listed in known_findings.json); exit 1 = VIOLATION with replay file; exit 2 = harness error. VERIF_SEED / VERIF_TIER / VERIF_REPO honoured.",
}
json.dump(man, open(os.path.join(V, 'MANIFEST.json'), 'w'), indent=1)
print("checks:", [c['property_id'] for c in checks], "n/a:", [n['property_id'] for n in na])
