#!/venv/bin/python
"""tools/scan.py <prop> <nruns> [kind-substring] [where] -- run seeds in-process (no minimisation) and print the
violations that match; debugging aid (not a registered check)"""
import sys, os, json, collections
os.environ.setdefault('PYTHONHASHSEED', '0')
sys.path.insert(0, os.path.dirname(os.path.dirname(os.path.abspath(__file__))))
from mysticsim import runner
pid = sys.argv[1].upper(); n = int(sys.argv[2])
kind = sys.argv[3] if len(sys.argv) > 3 else ''
where = sys.argv[4] if len(sys.argv) > 4 else ''
mod = runner.load_prop(pid)
findings = runner.load_findings()
cnt = collections.Counter(); shown = 0
for i in range(n):
    s = runner.run_seed(runner.DEFAULT_SEED, i)
    plan = mod.gen_plan(s, 'quick')
    o = runner.guarded_run(mod, plan, 60)
    if not o['ok']:
        print("ERROR seed", s, o['error'][-600:]); continue
    for v in o['violations']:
        if runner.match_finding(v, findings): cnt['known:' + v['kind']] += 1; continue
        cnt[(v['kind'], v['where'])] += 1
        if kind in v['kind'] and where in v['where'] and shown < int(os.environ.get('SHOW', '6')):
            shown += 1
            print("seed", s, "idx", i, v['kind'], v['where'], v['tags']); print("   ", v['detail'][:int(os.environ.get('WIDTH', '1500'))])
            if os.environ.get('PLAN'): print("   plan:", json.dumps(plan)[:3000])
for k, c in sorted(cnt.items(), key=repr): print(c, k)
