#!/bin/bash
# usage: confirm_mutant.sh <seeded dir name>   e.g. C01a
# In a scratch worktree of /repo HEAD: demo passes without the patch, fails with it, and the
# pinned suite still passes with it.  Prints one summary line; removes the worktree.
set -u
N="$1"; S=/verif/seeded/$N; W=/tmp/mw-$N
git -C /repo worktree remove --force $W >/dev/null 2>&1
git -C /repo worktree add -q --detach $W HEAD || exit 2
cp /repo/mystic/__info__.py $W/mystic/
cd $W
PYTHONPATH=$W timeout 600 /venv/bin/python $S/demo.py >$W/demo_clean.log 2>&1; c=$?
how=plain
if ! git apply $S/patch.diff 2>/dev/null; then
  how=3way
  if ! git apply --3way $S/patch.diff >/dev/null 2>&1; then how=FAILED; fi
fi
PYTHONPATH=$W timeout 600 /venv/bin/python $S/demo.py >$W/demo_mut.log 2>&1; m=$?
b=skipped
if [ "$how" != FAILED ]; then /verif/tools/run_baseline.sh $W > $W/base.log 2>&1; b=$(tail -n 30 $W/base.log | grep -c "passing: 213"); fi
echo "MUTANT $N apply=$how demo_clean_rc=$c demo_mut_rc=$m baseline213=$b :: $(tail -n 2 $W/demo_mut.log | tr '\n' ' ' | cut -c1-200)"
cd /; git -C /repo worktree remove --force $W
