#!/bin/bash
# usage: try_mutant.sh <seeded name> <property id> [more ids...]
# applies /verif/seeded/<name>/patch.diff to /repo, runs the quick checks (no evidence written),
# and ALWAYS reverts /repo afterwards.
N="$1"; shift
P=/verif/seeded/$N/patch.diff
cd /repo || exit 2
if [ -n "$(git status --porcelain -- mystic | grep -v __info__)" ]; then echo "repo dirty, refusing"; exit 2; fi
trap 'git -C /repo reset -q --hard HEAD' EXIT
git apply "$P" 2>/dev/null || git apply --3way "$P" >/dev/null 2>&1 || { echo "MUTANT $N: patch does not apply"; exit 2; }
cd /verif
for id in "$@"; do
  out=$(timeout -s TERM -k 10 900 bin/check $id --tier quick --no-evidence ${EXTRA:-} 2>&1); rc=$?
  rp=$(echo "$out" | grep -m1 '^VIOLATION property' | sed 's/.*replay=//')
  rstat="-"
  if [ -n "$rp" ]; then
    # the replay file must reproduce the violation, with the same trace digest, in a fresh process
    rout=$(timeout 600 bin/check $id --replay "$rp" 2>&1); rrc=$?
    if [ $rrc -eq 1 ] && ! echo "$rout" | grep -q "digest differs"; then rstat="replay-ok"; else rstat="REPLAY-BAD(rc=$rrc)"; fi
  fi
  echo "MUTANT $N check=$id rc=$rc $rstat :: $(echo "$out" | grep -m1 '^VIOLATION' ) $(echo "$out" | grep -A1 -m1 '^VIOLATION' | tail -1 | cut -c1-160)"
done
