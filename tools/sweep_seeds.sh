#!/bin/bash
# usage: sweep_seeds.sh <tier> <seed>...   -- every registered check under several batch seeds (no evidence written);
# prints one line per (check, seed); any rc != 0 is a false alarm or a finding to triage.
TIER="$1"; shift
cd /verif
for s in "$@"; do
  for p in C01 C02 C03 C04 C05 C06 C07 C08 C09 C10 C11 C17 C20; do
    t0=$(date +%s)
    out=$(VERIF_SEED=$s timeout 7200 bin/check $p --tier $TIER --no-evidence 2>&1); rc=$?
    echo "seed=$s $p rc=$rc secs=$(( $(date +%s)-t0 )) :: $(echo "$out" | tail -1 | cut -c1-110) $(echo "$out" | grep -m1 -A2 '^VIOLATION\|^HARNESS' | tr '\n' ' ' | cut -c1-400)"
  done
done
