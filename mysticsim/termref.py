"""TerminationRef: each built-in termination condition transcribed from its documented
inequality, evaluated on a snapshot; And = all, Or = any, When = id.  Returns True / False /
None (None = don't care: the documentation does not decide this state)."""
import math
from . import engine

inf = float('inf')

def _num(v):
    return isinstance(v, (int, float)) and not isinstance(v, bool)

def _le(diff, tol):
    """a - b <= tol, counting a == b (so inf - inf plateaus) as satisfied"""
    return diff <= tol

class Node(object):
    def __init__(self, spec, obj, clock0):
        self.spec = spec; self.obj = obj
        self.t = spec['t']
        self.kw = dict(spec.get('kw', {}))
        for k, v in list(self.kw.items()):
            if v == 'inf': self.kw[k] = inf
        self.kids = []
        self.clock0 = clock0          # (wall, mono, cpu) at construction (TimeLimits start)
        self.doc = getattr(obj, '__doc__', None)

def build(spec, clock0_fn, built=None):
    """build the mystic condition and its reference twin together.
    {'t': 'ref', 'i': j} re-uses the j-th node built so far in this tree (the very same
    condition object listed twice: a legal way to write a tree)"""
    import mystic.termination as mt
    if built is None: built = []
    t = spec['t']
    if t == 'ref':
        return built[spec['i'] % len(built)]
    if t in ('And', 'Or', 'When'):
        kids = [build(s, clock0_fn, built) for s in spec['of']]
        obj = getattr(mt, t)(*[k.obj for k in kids])
        n = Node(spec, obj, None); n.kids = kids
        built.append(n)
        return n
    c0 = clock0_fn()
    obj = engine.build_term(spec)
    n = Node(spec, obj, c0)
    built.append(n)
    return n

def window(hist, g):
    """(cost[-g], cost[-1]) with python indexing; None if the history is not longer than g"""
    g = 0 if g is None else int(g)
    if len(hist) <= g: return None
    return hist[-g], hist[-1]

def prim(n, s):
    """evaluate a primitive on snapshot s"""
    t = n.t; kw = n.kw
    hist = s['energy_history']
    if t == 'VTR':
        if not hist: return False
        return abs(hist[-1] - kw.get('target', 0.0)) <= kw.get('tolerance', 0.005)
    if t in ('COG', 'ChangeOverGeneration'):
        if not hist: return False
        w = window(hist, kw.get('generations', 30))
        if w is None: return False
        a, b = w
        return a == b or (a - b) <= kw.get('tolerance', 1e-6)
    if t in ('NCOG', 'NormalizedChangeOverGeneration'):
        if not hist: return False
        w = window(hist, kw.get('generations', 10))
        if w is None: return False
        a, b = w
        if a == b: return True
        tol = kw.get('tolerance', 1e-4)
        lhs = 2.0 * (a - b); rhs = tol * (abs(a) + abs(b))
        if lhs <= rhs: return True
        if lhs <= rhs + 1e-20: return None      # the eta guard band is a don't-care
        if lhs != lhs or rhs != rhs: return None
        return False
    if t in ('CRT', 'CandidateRelativeTolerance'):
        pop = s['population']; en = s['popEnergy']
        if len(en) < 2: return None             # documented as invalid for nPop < 2
        flat = [v for m in pop for v in m] + list(en)
        if any(v != v for v in flat): return None
        dx = 0.0
        for m in pop[1:]:
            for v, v0 in zip(m, pop[0]):
                d = abs(v - v0)
                if d != d: return None          # inf - inf
                dx = max(dx, d)
        df = 0.0
        for e in en[1:]:
            d = abs(en[0] - e)
            if d != d: return None
            df = max(df, d)
        return dx <= kw.get('xtol', 1e-4) and df <= kw.get('ftol', 1e-4)
    if t == 'SolutionImprovement':
        best = s['bestSolution']; trial = s.get('trialSolution')
        if trial is None: return None
        rows = trial if (trial and isinstance(trial[0], tuple)) else (trial,)
        sums = []
        for r in rows:
            sm = 0.0
            for a, b in zip(best, r): sm += abs(a - b)
            sums.append(sm)
        if any(v != v for v in sums): return None
        return max(sums) <= kw.get('tolerance', 1e-5)
    if t == 'NormalizedCostTarget':
        if not hist: return False
        fval = kw.get('fval'); g = kw.get('generations', 30); tol = kw.get('tolerance', 1e-6)
        g = 0 if g is None else int(g)
        if fval is None:
            if not g: return True
            w = window(hist, g)
            if w is None: return False
            a, b = w
            if a == b: return True
            if a < b: return None               # doc says '= 0'; code says '<= 0': undecided
            return False
        return abs(hist[-1] - fval) <= abs(tol * fval)
    if t in ('VTRCOG', 'VTRChangeOverGeneration'):
        if not hist: return False
        if abs(hist[-1] - kw.get('target', 0.0)) <= kw.get('ftol', 0.005): return True
        w = window(hist, kw.get('generations', 30))
        if w is None: return False
        a, b = w
        return a == b or (a - b) <= kw.get('gtol', 1e-6)
    if t == 'PopulationSpread':
        pop = s['population']; tol = kw.get('tolerance', 1e-6)
        for m in pop:
            for v, v0 in zip(m, pop[0]):
                d = abs(v - v0)
                if d != d: return None
                if not (d <= abs(tol * v0)): return False
        return True
    if t == 'EvaluationLimits':
        mg = kw.get('generations'); me = kw.get('evaluations')
        mg = inf if mg is None else mg; me = inf if me is None else me
        return s['evaluations'] >= me or s['generations'] >= mg
    if t == 'TimeLimits':
        sec = kw.get('seconds', 86400); system = kw.get('system')
        i = 0 if system is None else (1 if system else 2)
        return (s['_clock'][i] - n.clock0[i]) >= abs(sec)
    if t == 'SolverInterrupt':
        return bool(s['earlyexit'])
    if t == 'GradientNormTolerance':
        # forward-difference gradient of the RAW cost at the current best (what the condition documents to use when the
        # solver supplies no gradient), norm as given; a norm within rounding of the tolerance is undecided
        spec = s.get('_cost_spec')
        if spec is None: return None
        from .env import eval_model
        x = [float(v) for v in s['bestSolution']]
        eps = math.sqrt(2.220446049250313e-16)
        f0 = eval_model(spec, tuple(x))
        if not _num(f0) or f0 != f0: return None
        g = []
        for k_ in range(len(x)):
            xe = list(x); xe[k_] = x[k_] + eps
            fk = eval_model(spec, tuple(xe))
            if not _num(fk): return None
            g.append((fk - f0) / eps)
        if any(v != v for v in g): return None
        p_ = kw.get('norm', inf); tol = kw.get('tolerance', 1e-5)
        if p_ == inf: gn = max(abs(v) for v in g)
        else:
            try: gn = sum(abs(v) ** p_ for v in g) ** (1.0 / p_)
            except (OverflowError, ZeroDivisionError): return None
        if gn != gn: return None
        if abs(gn - tol) <= 1e-9 * max(1.0, abs(tol)): return None
        return gn <= tol
    return None

def evaluate(n, s):
    """-> (sat: True/False/None, docs: set of primitive docs named by info=True or None if unknown)"""
    if n.t in ('And', 'When'):
        rs = [evaluate(k, s) for k in n.kids]
        sats = [r[0] for r in rs]
        if any(x is False for x in sats): return False, set()
        if any(x is None for x in sats): return None, None
        if any(r[1] is None for r in rs): return True, None      # satisfied, but which primitives an undecided branch names is unknown
        docs = set()
        for r in rs: docs |= r[1]
        return True, docs
    if n.t == 'Or':
        rs = [evaluate(k, s) for k in n.kids]
        sats = [r[0] for r in rs]
        unknown = any(x is None for x in sats)
        if any(x is True for x in sats):
            if unknown or any(r[0] and r[1] is None for r in rs): return True, None
            docs = set()
            for r in rs:
                if r[0]: docs |= r[1]
            return True, docs
        if unknown: return None, None
        return False, set()
    r = prim(n, s)
    if r is None: return None, None
    return bool(r), ({n.doc} if r else set())

def rebuild(obj):
    """rebuild a condition from its reported type and state (recursively for compounds)"""
    import mystic.termination as mt
    if isinstance(obj, tuple):
        return mt.type(obj)(*[rebuild(m) for m in obj])
    return mt.type(obj)(**mt.state(obj)[obj.__doc__])
