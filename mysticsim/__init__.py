"""mysticsim -- deterministic simulation with fault injection for uqfoundation/mystic.

The solver is the system under simulation; cost / constraints / penalty / callback / map /
clock / signal / tty / file system / RNG are simulated peers owned by one seeded run context.
See /verif/DESIGN.md.
"""
import os, sys

REPO = os.environ.get('VERIF_REPO', '/repo')
if REPO not in sys.path[:1]:
    sys.path.insert(0, REPO)
VERIF = os.path.dirname(os.path.dirname(os.path.abspath(__file__)))
