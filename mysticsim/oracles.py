"""Oracles / reference models for the single-solver properties.

Each oracle is attached to a Harness and receives: on_step(h, snap) from inside the callback
(end of every executed _Step), after_step_call(h, msg, executed) after each Step(), after_op(h,
op, res) after every operation and finish(h).
"""
import math
from . import observe
from .observe import feq, canon

inf = float('inf')

def isnan(v):
    return isinstance(v, float) and v != v

def finite(v):
    return isinstance(v, (int, float)) and not isinstance(v, bool) and v == v and v not in (inf, -inf)


# =========================================================================== C04

class CounterModel(object):
    """C04: counters, monitors and callbacks are faithful"""
    P = 'C04'
    def __init__(self):
        self.evalmon_base = None      # index into run.evals where the evaluation monitor starts
        self.evalmon_kind = None
        self.evalmon_prefix = 0       # records the monitor held before (prepended)
        self.redecorated = False
        self.resumed_after_stop = False
        self.stopped = False
        self.stop_count = 0
        self.set_since_step = False
        self.step_msgs = []
        self.finalized = False            # Finalize() ran (Set*/Finalize/stop) after the run started
        self.continued_after_finalize = False
        self.dirty = False                # objective-defining Set* since the last executed _Step
        self.epoch_from = 0               # energy_history index where the current objective epoch starts
        self.stop_by_precheck = False     # the current stop was detected without executing a _Step
        self.evalmon_midrun = False
        self.stepmon_midrun = False

    def tags(self, h):
        return {'resumed': self.resumed_after_stop, 'set_midrun': h.started and self.set_since_step,
                'continued_after_finalize': self.continued_after_finalize,
                'stop_by_precheck': self.stop_by_precheck, 'evalmon_midrun': self.evalmon_midrun,
                'stepmon_midrun': self.stepmon_midrun}

    # ---- bookkeeping of monitor installs
    def after_op(self, h, op, res):
        run = h.run
        if op['op'] in ('set', 'finalize'):
            if h.started:
                self.set_since_step = True
                if op['op'] == 'finalize' or op.get('what') in ('bounds', 'constraint', 'penalty', 'reducer'):
                    self.finalized = True
                    self.dirty = True
                if op.get('what') in ('bounds', 'constraint', 'penalty', 'reducer'):
                    # (Powell re-records the pre-change point at the start of its next _Step)
                    self.epoch_from = len(h.solver.energy_history) + (1 if h.plan['solver'] == 'Powell' else 0)
                if op.get('what') == 'stepmon': self.stepmon_midrun = True
                if op.get('what') == 'evalmon': self.evalmon_midrun = True
            if op.get('what') == 'evalmon' and 'exc' not in res:
                kind = op['arg'].get('kind')
                new = op['arg'].get('new', False)
                if kind in ('Monitor', 'Logging', 'Verbose'):
                    if self.evalmon_kind in ('Monitor', 'Logging', 'Verbose') and not new:
                        pass                       # old contents prepended: same base
                    else:
                        self.evalmon_base = len(run.evals)
                    self.evalmon_kind = kind
                else:
                    self.evalmon_kind = None; self.evalmon_base = None
        self.check(h, 'after_' + op['op'])

    def after_step_call(self, h, msg, executed):
        if self.stopped and executed:
            self.resumed_after_stop = True
        if executed:
            if self.finalized: self.continued_after_finalize = True
            self.dirty = False
        if msg and h.started:
            self.finalized = True
        self.stop_by_precheck = bool(msg) and not executed
        if executed > 1:
            h.violate(self.P, 'callback_count', detail='%d callbacks in one Step()' % executed, **self.tags(h))
        if msg:
            if not self.stopped: self.stop_count += 1
            self.stopped = True
        else:
            self.stopped = False

    def after_solve_call(self, h, executed):
        if self.stopped and executed:
            self.resumed_after_stop = True
        if executed:
            if self.finalized: self.continued_after_finalize = True
            self.dirty = False
        self.stopped = True
        self.finalized = True
        self.stop_by_precheck = not executed

    def on_step(self, h, s):
        # the callback receives the current best
        if not feq(s['_cb_x'], s['bestSolution']):
            h.violate(self.P, 'callback_arg_not_best', detail='callback got %r, best is %r'
                      % (s['_cb_x'], s['bestSolution']), **self.tags(h))
        sm = s['stepmon']
        if h.plan['solver'] != 'Powell' and sm['y']:
            if not (feq(sm['y'][-1], s['bestEnergy']) and feq(sm['x'][-1], s['bestSolution'])):
                h.violate(self.P, 'callback_arg_not_best', detail='at callback time the last step-monitor '
                          'record %r/%r is not the best %r/%r' % (sm['x'][-1], sm['y'][-1],
                          s['bestSolution'], s['bestEnergy']), **self.tags(h))

    # ---- the equalities, checked after every op
    def check(self, h, when):
        run = h.run
        if not h.solvers: return
        s = h.snap()
        T = self.tags(h)
        solver = h.plan['solver']
        mine = [e for e in run.evals if e.owner == h.cur]
        # (1) best-energy history non-increasing, last == reported best
        eh = s['energy_history']
        for i in range(self.epoch_from, len(eh) - 1):     # within one objective epoch
            a, b = eh[i], eh[i + 1]
            if isinstance(a, float) and isinstance(b, float) and b > a:
                h.violate(self.P, 'best_history_increased', detail='%s: energy_history[%d]=%r < [%d]=%r'
                          % (when, i, a, i + 1, b), **T)
                break
        if eh and h.started and not feq(eh[-1], s['bestEnergy']):
            h.violate(self.P, 'history_tail_not_best', detail='%s: energy_history[-1]=%r bestEnergy=%r'
                      % (when, eh[-1], s['bestEnergy']), **T)
        # (2) evaluation counter == real calls over the whole life
        if s['evaluations'] != len(mine):
            h.violate(self.P, 'evaluations_ne_calls', detail='%s: evaluations=%r real cost calls=%d'
                      % (when, s['evaluations'], len(mine)), **T)
        # (3) evaluation monitor == the calls in order (default in-process map only)
        em = s['evalmon']
        if self.evalmon_kind and self.evalmon_base is not None and not h.plan.get('map'):
            want = mine[self.evalmon_base:]
            wx = tuple(e.x for e in want); wy = tuple(canon(e.y) for e in want)
            if not (feq(em['x'], wx) and feq(em['y'], wy)):
                d = observe.first_diff({'x': em['x'], 'y': em['y']}, {'x': wx, 'y': wy})
                h.violate(self.P, 'evalmon_ne_calls', detail='%s: evaluation monitor differs from the call log at %s '
                          '(monitor has %d records, log %d)' % (when, d, len(em['y']), len(wy)), **T)
        # (4) generations == completed iterations
        if h.started:
            it = max(0, h.steps_executed - 1)
            if s['generations'] != it:
                h.violate(self.P, 'generations_ne_iterations', detail='%s: generations=%r but %d _Step executed '
                          '(=> %d completed iterations)' % (when, s['generations'], h.steps_executed, it), **T)
        # (5) step monitor of a stopped run: one record per generation, ending in the result
        if self.stopped and h.started and not self.dirty and when in ('after_step', 'after_solve'):
            sm = s['stepmon']
            n = len(sm['y'])
            if n != s['generations'] + 1:
                h.violate(self.P, 'stepmon_ne_generations', detail='%s: stopped run has %d step-monitor records, '
                          'generations=%d' % (when, n, s['generations']), **T)
            elif self.stop_by_precheck:
                pass    # a Step() on a stopped solver may re-decorate (re-clip) without iterating
            elif not (feq(sm['y'][-1], s['bestEnergy']) and feq(sm['x'][-1], s['bestSolution'])):
                h.violate(self.P, 'stepmon_ne_generations', detail='%s: last step-monitor record %r/%r is not the '
                          'reported result %r/%r' % (when, sm['x'][-1], sm['y'][-1], s['bestSolution'],
                                                     s['bestEnergy']), **T)
            elif n == len(h.step_snaps) and solver != 'Powell':
                # (Powell completes iteration k at the start of _Step k+1, so only count and tail apply)
                for k_, (x, y) in enumerate(zip(sm['x'], sm['y'])):
                    ss = h.step_snaps[k_]
                    if not (feq(y, ss['bestEnergy']) and feq(x, ss['bestSolution'])):
                        h.violate(self.P, 'stepmon_ne_generations', detail='%s: step-monitor record %d = %r/%r but '
                                  'the best after that iteration was %r/%r' % (when, k_, x, y,
                                  ss['bestSolution'], ss['bestEnergy']), **T)
                        break

    def finish(self, h):
        # the callback fires exactly once per executed iteration: cross-check with the monitor
        pass
