"""Oracles / reference models for the single-solver properties.

Each oracle is attached to a Harness and receives: on_step(h, snap) from inside the callback
(end of every executed _Step), after_step_call(h, msg, executed) after each Step(), after_op(h,
op, res) after every operation and finish(h).
"""
import math
from . import observe
from .observe import feq, canon

inf = float('inf')

def isnan(v):
    return isinstance(v, float) and v != v

def finite(v):
    return isinstance(v, (int, float)) and not isinstance(v, bool) and v == v and v not in (inf, -inf)


# =========================================================================== C04

class CounterModel(object):
    """C04: counters, monitors and callbacks are faithful"""
    P = 'C04'
    def __init__(self):
        self.evalmon_base = None      # index into run.evals where the evaluation monitor starts
        self.evalmon_kind = None
        self.evalmon_prefix = 0       # records the monitor held before (prepended)
        self.redecorated = False
        self.resumed_after_stop = False
        self.stopped = False
        self.stop_count = 0
        self.set_since_step = False
        self.step_msgs = []
        self.finalized = False            # Finalize() ran (Set*/Finalize/stop) after the run started
        self.fin_inside = False           # mystic's own Finalize() inside the Step/Solve that is running
        self.continued_after_finalize = False
        self.dirty = False                # objective-defining Set* since the last executed _Step
        self.epoch_from = 0               # energy_history index where the current objective epoch starts
        self.stop_by_precheck = False     # the current stop was detected without executing a _Step
        self.evalmon_midrun = False
        self.stepmon_midrun = False

    @staticmethod
    def collapse_applied(h):
        """did Solve() apply a collapse (=> SetConstraints/SetTermination => Finalize) and carry on?  seen as a grown mask"""
        try:
            import mystic.termination as mt
            st = mt.state(h.solver._termination)
            return any(k.startswith('Collapse') and v.get('mask') for k, v in st.items() if isinstance(v, dict))
        except Exception:
            return False

    def tags(self, h):
        return {'resumed': self.resumed_after_stop, 'set_midrun': h.started and self.set_since_step,
                'continued_after_finalize': self.continued_after_finalize or (bool(h.solvers) and self.collapse_applied(h)),
                'stop_by_precheck': self.stop_by_precheck, 'evalmon_midrun': self.evalmon_midrun,
                'stepmon_midrun': self.stepmon_midrun,
                'aborted_map': h.plan['solver'] == 'DE2' and bool(h.run.raised), 'aborted_step': bool(h.run.raised)}

    def before_op(self, h, op):
        # Finalize() called by mystic itself while a run goes on (Step finalizes when Terminated() is true, and then asks
        # again for the message: for Powell the record Finalize appends can change the answer, and the run carries on) is
        # the same 'finalize then continue' history as an explicit Finalize()/Set* between steps
        if op['op'] in ('solve', 'step') and h.solvers and not getattr(h.solver, '_c04_fin_wrapped', False):
            solver_ = h.solver; fin = solver_.Finalize; model_ = self
            def Finalize():
                r_ = fin()
                # (counts as 'finalized' for what runs AFTER it -- only where the unchanged design finalizes: Step's own clean-up after
                # Terminated(), or a Set* call; a Finalize() reached from anywhere else is not the history the listed finding describes)
                import sys as _sys
                if (h.started or h.in_solve) and _sys._getframe(1).f_code.co_name in ('Step', '_update_objective'):
                    model_.fin_inside = True
                return r_
            try:
                solver_.Finalize = Finalize; solver_._c04_fin_wrapped = True
            except Exception:
                pass
        # a collapse applied inside Solve() installs a constraint: from there on a different objective is minimised (a new
        # epoch for 'best never worsens', exactly like an explicit SetConstraints in mid-run)
        if op['op'] == 'solve' and h.solvers and not getattr(h.solver, '_c04_wrapped', False):
            solver = h.solver; orig = solver.Collapse; model = self
            def Collapse(disp=False):
                out = orig(disp)
                if out:
                    was = h.run.observing; h.run.observing = True
                    try:
                        model.epoch_from = len(solver.energy_history) + (1 if h.plan['solver'] == 'Powell' else 0)
                        model.finalized = True
                        h.run.probe('c04.collapse_inside_solve')
                    finally:
                        h.run.observing = was
                return out
            try:
                solver.Collapse = Collapse; solver._c04_wrapped = True
            except Exception:
                pass

    # ---- fault-injecting configuration: an I/O error on a LoggingMonitor file ends the user's program
    def check_after_io_fault(self, h, op, res):
        """relaxed narrowly: the exception reached the caller (that is why we are here); the evaluation counter still
        equals the real calls; each log file holds exactly the in-memory records, or lacks only the one in flight"""
        from .observe import canon
        T = dict(self.tags(h), after_io_fault=True)
        h.run.probe('c04.io_fault_surfaced')
        s = h.snap()
        mine = [e for e in h.run.evals if e.owner == h.cur]
        # (DE2 adds the calls of a whole map when the map returns: the calls of the map in flight, at most nPop, are not in yet)
        slack = len(s['population']) if h.plan['solver'] == 'DE2' else 0
        if not (len(mine) - slack <= s['evaluations'] <= len(mine)):
            h.violate(self.P, 'evaluations_ne_calls', detail='after an injected I/O error in %s: evaluations=%r real cost calls=%d'
                      % (op['op'], s['evaluations'], len(mine)), **T)
        import mystic.munge as mg
        def flat(v):
            out = []
            def go(u):
                if isinstance(u, (tuple, list)):
                    for i in u: go(i)
                else: out.append(float(u) if isinstance(u, (int, float)) and not isinstance(u, bool) else u)
            go(v)
            return tuple(out)
        for which in ('_stepmon', '_evalmon'):
            m = getattr(h.solver, which, None)
            if type(m).__name__ != 'LoggingMonitor': continue
            try:
                step, param, cost = mg.logfile_reader(m._filename, iter=True)
            except Exception as e:
                h.violate(self.P, 'log_ne_monitor_after_io_error', detail='%s: logfile_reader raised %s: %s'
                          % (which, type(e).__name__, str(e)[:160]), **T)
                continue
            mx = canon(m._x); my = canon(m._y)
            j = len(cost)
            if not (len(my) - 1 <= j <= len(my)):
                h.violate(self.P, 'log_ne_monitor_after_io_error', detail='%s: the file holds %d records, the monitor %d'
                          % (which, j, len(my)), **T)
                continue
            for i in range(j):
                if not (feq(flat(canon(param[i])), flat(mx[i])) and feq(flat(canon(cost[i])), flat(my[i]))):
                    h.violate(self.P, 'log_ne_monitor_after_io_error', detail='%s: file record %d is %r / %r, the monitor holds %r / %r'
                              % (which, i, param[i], cost[i], mx[i], my[i]), **T)
                    break

    # ---- bookkeeping of monitor installs
    def after_op(self, h, op, res):
        run = h.run
        if res.get('exc') == 'SimFault':
            self.check_after_io_fault(h, op, res)
            self.pending_abort = True      # an iteration was cut short: the step monitor has not seen what it changed yet
            return
        if op['op'] in ('set', 'finalize'):
            if h.started:
                self.set_since_step = True
                if op['op'] == 'finalize' or op.get('what') in ('bounds', 'constraint', 'penalty', 'reducer'):
                    self.finalized = True
                    self.dirty = True
                if op.get('what') in ('bounds', 'constraint', 'penalty', 'reducer'):
                    # (Powell re-records the pre-change point at the start of its next _Step)
                    self.epoch_from = len(h.solver.energy_history) + (1 if h.plan['solver'] == 'Powell' else 0)
                if op.get('what') == 'stepmon': self.stepmon_midrun = True
                if op.get('what') == 'evalmon': self.evalmon_midrun = True
            if op.get('what') == 'evalmon' and 'exc' not in res:
                kind = op['arg'].get('kind')
                new = op['arg'].get('new', False)
                if kind in ('Monitor', 'Logging', 'Verbose'):
                    if self.evalmon_kind in ('Monitor', 'Logging', 'Verbose') and not new:
                        pass                       # old contents prepended: same base
                    else:
                        self.evalmon_base = len(run.evals)
                    self.evalmon_kind = kind
                else:
                    self.evalmon_kind = None; self.evalmon_base = None
        self.check(h, 'after_' + op['op'])
        self.check_best_vs_evaluated(h, 'after_' + op['op'])

    def after_step_call(self, h, msg, executed):
        if self.stopped and executed:
            self.resumed_after_stop = True
        if executed:
            if self.finalized: self.continued_after_finalize = True
            self.dirty = False
        if self.fin_inside: self.finalized = True; self.fin_inside = False
        if msg and h.started:
            self.finalized = True
        self.stop_by_precheck = bool(msg) and not executed
        if executed > 1:
            h.violate(self.P, 'callback_count', detail='%d callbacks in one Step()' % executed, **self.tags(h))
        if msg:
            if not self.stopped: self.stop_count += 1
            self.stopped = True
        else:
            self.stopped = False

    def after_solve_call(self, h, executed):
        if self.stopped and executed:
            self.resumed_after_stop = True
        if executed:
            if self.finalized: self.continued_after_finalize = True
            self.dirty = False
        self.fin_inside = False
        self.stopped = True
        self.finalized = True
        self.stop_by_precheck = not executed

    def on_step(self, h, s):
        self.pending_abort = False
        if self.finalized or self.fin_inside: self.continued_after_finalize = True
        if h.started: self.check_best_vs_evaluated(h, 'iteration_%d' % s['_step_no'])
        # the callback receives the current best
        if not feq(s['_cb_x'], s['bestSolution']):
            h.violate(self.P, 'callback_arg_not_best', detail='callback got %r, best is %r'
                      % (s['_cb_x'], s['bestSolution']), **self.tags(h))
        sm = s['stepmon']
        if h.plan['solver'] != 'Powell' and sm['y']:
            if not (feq(sm['y'][-1], s['bestEnergy']) and feq(sm['x'][-1], s['bestSolution'])):
                h.violate(self.P, 'callback_arg_not_best', detail='at callback time the last step-monitor '
                          'record %r/%r is not the best %r/%r' % (sm['x'][-1], sm['y'][-1],
                          s['bestSolution'], s['bestEnergy']), **self.tags(h))

    # ---- the equalities, checked after every op
    def check(self, h, when):
        run = h.run
        if not h.solvers: return
        s = h.snap()
        T = self.tags(h)
        solver = h.plan['solver']
        mine = [e for e in run.evals if e.owner == h.cur]
        # (1) best-energy history non-increasing, last == reported best
        eh = s['energy_history']
        start = self.epoch_from
        if solver == 'Powell' and start and T.get('aborted_step'):
            # (Powell keeps the record of an iteration that a raising cost aborted -- listed finding -- so after such a run the index at
            # which a later mid-run change of the objective takes effect in the history is one further on per aborted iteration)
            start += len(h.run.raised)
        for i in range(start, len(eh) - 1):     # within one objective epoch
            a, b = eh[i], eh[i + 1]
            if isinstance(a, float) and isinstance(b, float) and b > a:
                h.violate(self.P, 'best_history_increased', detail='%s: energy_history[%d]=%r < [%d]=%r'
                          % (when, i, a, i + 1, b), **T)
                break
        if eh and h.started and not getattr(self, 'pending_abort', False) and not feq(eh[-1], s['bestEnergy']):
            h.violate(self.P, 'history_tail_not_best', detail='%s: energy_history[-1]=%r bestEnergy=%r'
                      % (when, eh[-1], s['bestEnergy']), **T)
        # (2) evaluation counter == real calls over the whole life
        if s['evaluations'] != len(mine):
            h.violate(self.P, 'evaluations_ne_calls', detail='%s: evaluations=%r real cost calls=%d'
                      % (when, s['evaluations'], len(mine)), **T)
        # (3) evaluation monitor == the calls in order (default in-process map only)
        em = s['evalmon']
        if self.evalmon_kind and self.evalmon_base is not None and not h.plan.get('map'):
            want = [e for e in mine[self.evalmon_base:] if e.n not in run.raised]     # a call that raised returned no cost to log
            wx = tuple(e.x for e in want); wy = tuple(canon(e.y) for e in want)
            if not (feq(em['x'], wx) and feq(em['y'], wy)):
                d = observe.first_diff({'x': em['x'], 'y': em['y']}, {'x': wx, 'y': wy})
                h.violate(self.P, 'evalmon_ne_calls', detail='%s: evaluation monitor differs from the call log at %s '
                          '(monitor has %d records, log %d)' % (when, d, len(em['y']), len(wy)), **T)
        # (4) generations == completed iterations
        if h.started:
            nsteps = max(h.steps_executed, h.real_steps)
            it = max(0, nsteps - 1)
            if s['generations'] != it:
                h.violate(self.P, 'generations_ne_iterations', detail='%s: generations=%r but %d _Step executed '
                          '(=> %d completed iterations)' % (when, s['generations'], nsteps, it), **T)
        # (4b) the callback is invoked exactly once per executed iteration (real executions are counted at the _Step seam)
        if when in ('after_step', 'after_solve') and h.real_steps != h.steps_executed:
            h.violate(self.P, 'callback_count', detail='%s: %d iterations were executed, the callback was invoked %d times'
                      % (when, h.real_steps, h.steps_executed), **T)
        # (5) step monitor of a stopped run: one record per generation, ending in the result
        if self.stopped and h.started and not self.dirty and when in ('after_step', 'after_solve'):
            sm = s['stepmon']
            n = len(sm['y'])
            if n != s['generations'] + 1:
                h.violate(self.P, 'stepmon_ne_generations', detail='%s: stopped run has %d step-monitor records, '
                          'generations=%d' % (when, n, s['generations']), **T)
            elif self.stop_by_precheck:
                pass    # a Step() on a stopped solver may re-decorate (re-clip) without iterating
            elif not (feq(sm['y'][-1], s['bestEnergy']) and feq(sm['x'][-1], s['bestSolution'])):
                h.violate(self.P, 'stepmon_ne_generations', detail='%s: last step-monitor record %r/%r is not the '
                          'reported result %r/%r' % (when, sm['x'][-1], sm['y'][-1], s['bestSolution'],
                                                     s['bestEnergy']), **T)
            elif n == len(h.step_snaps) and solver != 'Powell':
                # (Powell completes iteration k at the start of _Step k+1, so only count and tail apply)
                for k_, (x, y) in enumerate(zip(sm['x'], sm['y'])):
                    ss = h.step_snaps[k_]
                    if not (feq(y, ss['bestEnergy']) and feq(x, ss['bestSolution'])):
                        h.violate(self.P, 'stepmon_ne_generations', detail='%s: step-monitor record %d = %r/%r but '
                                  'the best after that iteration was %r/%r' % (when, k_, x, y,
                                  ss['bestSolution'], ss['bestEnergy']), **T)
                        break

    def check_best_vs_evaluated(self, h, when):
        """best-so-far never worsens, measured against what was really evaluated: DE and Nelder-Mead accept every evaluated
        point that beats their best, so the reported best energy is never above the lowest objective value evaluated so
        far (one objective epoch, scalar finite costs; also after a failure of the cost that the caller handled)"""
        if not h.started or h.plan['solver'] not in ('DE', 'DE2', 'NM'): return
        if self.epoch_from or self.set_since_step or self.finalized: return
        if h.constraint is not None or h.bounds is not None or h.reducer: return
        run = h.run
        if h.plan['solver'] == 'DE2' and run.raised: return      # (the results of a map that raised never reached the solver)
        mine = [e for e in run.evals if e.owner == h.cur and e.n not in run.raised]
        if not mine or any(not isinstance(e.y, float) or e.y != e.y for e in mine): return
        from . import env
        pen = h.penalty.spec if h.penalty is not None else None
        lowest = min(e.y + (env.pen_apply(pen, e.x) if pen else 0.0) for e in mine)
        be = canon(h.solver.bestEnergy)
        h.run.probe('c04.best_vs_evaluated')
        if isinstance(be, float) and be == be and be > lowest:
            h.violate(self.P, 'best_worse_than_evaluated', detail='%s: bestEnergy=%r although an objective value of %r was evaluated earlier '
                      '(%d real cost calls)' % (when, be, lowest, len(mine)),
                      aborted_in_generation0=any(n_ <= len(h.solver.population) for n_ in run.raised), **self.tags(h))

    def finish(self, h):
        # the callback fires exactly once per executed iteration: cross-check with the monitor
        pass


# =========================================================================== settings tracking

class Epochs(object):
    """which objective-defining settings were in force for which logged evaluations"""
    def __init__(self):
        self.epochs = []       # dicts: from_eval, box, con, pen, red
        self.cur = {'from_eval': 0, 'box': None, 'con': None, 'pen': None, 'red': None,
                    'tight': None, 'clip': None}
        self.epochs.append(dict(self.cur))
        self.changed_after_start = {'box': False, 'con': False, 'pen': False, 'red': False}
    def note(self, h, op, res):
        if op['op'] != 'set' or 'exc' in res: return False
        w = op['what']; a = op.get('arg')
        key = {'bounds': 'box', 'constraint': 'con', 'penalty': 'pen', 'reducer': 'red'}.get(w)
        if key is None: return False
        if key == 'box':
            self.cur['box'] = (tuple(a['lo']), tuple(a['hi'])) if a else None
            self.cur['tight'] = a.get('tight') if a else None
            self.cur['clip'] = a.get('clip') if a else None
        else:
            self.cur[key] = a
        self.cur['from_eval'] = len(h.run.evals)
        if h.started: self.changed_after_start[key] = True
        if self.epochs and self.epochs[-1]['from_eval'] == self.cur['from_eval']:
            self.epochs[-1] = dict(self.cur)
        else:
            self.epochs.append(dict(self.cur))
        return True
    def at(self, eval_index):
        e = self.epochs[0]
        for ep in self.epochs:
            if ep['from_eval'] <= eval_index: e = ep
            else: break
        return e
    def single_epoch(self):
        return not any(self.changed_after_start.values())


def in_box(x, box):
    if box is None: return True
    lo, hi = box
    for v, l, u in zip(x, lo, hi):
        if not (l <= v <= u): return False
    return True

def reduce_energy(y, p, red):
    """mirror mystic: reducer(cost(x) + penalty(x))"""
    if isinstance(y, (list, tuple)):
        ys = [yi + p for yi in y]
        if red is None:
            return tuple(ys)
        from .engine import reducer_fn
        return reducer_fn(red)(ys)
    return y + p

def shadow_objective(h, ep, x, nested):
    """the objective the solver minimises at x, recomputed from the peers' pure twins.
    nested: constraints are applied inside the objective (NM/Powell)"""
    from . import env
    x = tuple(float(v) for v in x)
    box = ep['box']
    if nested:
        con = ep['con']
        tight = ep['tight'] or (ep['clip'] is not None)
        for _ in range(20):
            x0 = x
            if con: x = tuple(env.con_apply(con, list(x)))
            if tight and box is not None:
                x = tuple(min(max(v, l), u) for v, l, u in zip(x, box[0], box[1]))
            if x == x0: break
    p = env.pen_apply(ep['pen'], x) if ep['pen'] else 0.0
    if not in_box(x, box):
        return inf + p, x
    y = env.eval_model(h.plan['cost'], x)
    return reduce_energy(y, p, ep['red']), x


# =========================================================================== C01

class EvaluatedOptimum(object):
    """C01: reported optimum is a genuinely evaluated point with its true energy"""
    P = 'C01'
    def __init__(self):
        self.ep = Epochs()
        self.first_best = None
        self.redecorated = False   # Finalize()/stop followed by more steps: the objective was re-wrapped mid-run
        self._stopped = False
        self.index = {}        # x tuple -> list of eval indices
        self.indexed = 0
    def tags(self, h):
        e = self.ep.cur
        return {'constraint': (e['con'] or {}).get('family'), 'form': (e['con'] or {}).get('form'),
                'bounds': e['box'] is not None, 'tight': e['tight'], 'clip': e['clip'],
                'penalty': bool(e['pen']), 'reducer': e['red'], 'midrun_change': not self.ep.single_epoch(),
                'box_changed_midrun': self.ep.changed_after_start['box'],
                'con_changed_midrun': self.ep.changed_after_start['con'],
                'redecorated_midrun': self.redecorated}
    def after_step_call(self, h, msg, executed):
        if self._stopped and executed: self.redecorated = True
        self._stopped = bool(msg)
    def after_solve_call(self, h, executed):
        if self._stopped and executed: self.redecorated = True
        self._stopped = True
    def after_op(self, h, op, res):
        self.ep.note(h, op, res)
        if h.started and (op['op'] == 'finalize' or (op['op'] == 'set' and op['what'] in
                          ('bounds', 'constraint', 'penalty', 'reducer', 'evalmon'))):
            self.redecorated = True
        if op['op'] in ('step', 'solve') and h.started:
            self.check(h, h.snap(), 'after_' + op['op'], members=False)   # members: at iteration boundaries only
    def on_step(self, h, s):
        if self._stopped: self.redecorated = True     # stepping again after a stop re-wraps the objective
        self.check(h, s, 'iteration_%d' % s['_step_no'])
    def _reindex(self, h):
        ev = h.run.evals
        for i in range(self.indexed, len(ev)):
            self.index.setdefault(ev[i].x, []).append(i)
        self.indexed = len(ev)
    def check(self, h, s, when, members=True):
        self._reindex(h)
        T = self.tags(h)
        be = s['bestEnergy']; bs = s['bestSolution']
        solver = h.plan['solver']
        nested = True   # DE stores constrained trials, so applying the constraint again is the identity
        # (a) best is an evaluated point, with its true energy
        fin = finite(be) if not isinstance(be, tuple) else all(finite(v) for v in be)
        if fin and not isinstance(be, tuple):
            h.run.probe('c01.best_checked')
            ks = self.index.get(tuple(bs))
            if not ks:
                h.violate(self.P, 'best_not_evaluated', detail='%s: bestSolution %r (energy %r) was never passed '
                          'to the cost function' % (when, bs, be), **T)
            else:
                ok = False; got = []
                for k_ in ks:
                    e = h.run.evals[k_]; ep = self.ep.at(k_)
                    from . import env
                    p = env.pen_apply(ep['pen'], e.x) if ep['pen'] else 0.0
                    want = reduce_energy(e.y, p, ep['red'])
                    got.append(want)
                    if feq(canon(want), be): ok = True; break
                if not ok:
                    h.violate(self.P, 'best_energy_mismatch', detail='%s: bestEnergy=%r but cost+penalty at bestSolution %r '
                              'is %r' % (when, be, bs, got[:3]), **T)
        # (b) member energies == objective at the member (only while the objective is unchanged)
        if members and self.ep.single_epoch():
            ep = self.ep.cur
            h.run.probe('c01.members_checked', len(s['popEnergy']))
            for i, (x, e) in enumerate(zip(s['population'], s['popEnergy'])):
                if solver == 'NM' and s['generations'] == 0 and i > 0:
                    continue     # the simplex is only populated by the first iteration
                want, xc = shadow_objective(h, ep, x, nested)
                if not feq(canon(want), e):
                    h.violate(self.P, 'member_energy_mismatch', detail='%s: member %d %r stores energy %r but the '
                              'objective there is %r' % (when, i, x, e, want), **T)
                    break
            # (c) never worse than the initial guess
            if self.first_best is None and h.step_snaps:
                self.first_best = h.step_snaps[0]['bestEnergy']
            fb = self.first_best
            if isinstance(fb, float) and isinstance(be, float) and fb == fb and be == be and be > fb:
                h.violate(self.P, 'best_worse_than_initial', detail='%s: bestEnergy=%r is worse than the energy of the '
                          'initial guess %r' % (when, be, fb), **T)


# =========================================================================== C02

class BoxOracle(object):
    """C02: once strict ranges are set the cost is never evaluated outside the box"""
    P = 'C02'
    def __init__(self):
        self.ep = Epochs()
        self.checked = 0
        self.box_from_start = False
        self.box_changed = False
        self.nonidem_seen = False
    def tags(self, h):
        e = self.ep.cur
        return {'constraint': (e['con'] or {}).get('family'), 'tight': e['tight'], 'clip': e['clip'],
                'installed_midrun': self.ep.changed_after_start['box']}
    def scan(self, h):
        ev = h.run.evals
        box = self.ep.cur['box']
        if box is not None:
            if len(ev) > self.checked: h.run.probe('c02.evals_checked_against_box', len(ev) - self.checked)
            for i in range(self.checked, len(ev)):
                if not in_box(ev[i].x, box):
                    h.violate(self.P, 'cost_called_outside_box', detail='cost call #%d at %r is outside the strict '
                              'ranges %r' % (ev[i].n, ev[i].x, box), **self.tags(h))
                    break
        self.checked = len(ev)
    def on_step(self, h, s):
        self.scan(h)
        self.check_best(h, s, 'iteration_%d' % s['_step_no'])
    def check_best(self, h, s, when):
        box = self.ep.cur['box']
        if box is None or not self.box_from_start or self.box_changed: return
        if (self.ep.cur['con'] or {}).get('family') == 'push_out' or self.nonidem_seen:
            return     # a non-idempotent pusher is re-applied to the stored best by design; clause (a) still applies
        be = s['bestEnergy']
        if isinstance(be, float) and finite(be) and not in_box(s['bestSolution'], box):
            h.violate(self.P, 'best_outside_box', detail='%s: bestSolution %r (energy %r) lies outside %r'
                      % (when, s['bestSolution'], be, box), **self.tags(h))
    def after_op(self, h, op, res):
        self.scan(h)                      # evaluations made under the box in force before this op
        if op['op'] == 'set' and op['what'] == 'constraint' and (op.get('arg') or {}).get('family') == 'push_out':
            self.nonidem_seen = True
        if op['op'] == 'set' and op['what'] == 'bounds':
            a = op.get('arg')
            if a and a.get('invalid'):
                h.run.probe('c02.rejected_reconfiguration')
                if res.get('exc') != 'ValueError':
                    h.violate(self.P, 'illegal_mode_accepted', detail='SetStrictRanges with min > max (%r) did not raise ValueError (%r)'
                              % (a, res), **self.tags(h))
                # (rejected: the box that was in force stays in force -- Epochs.note ignores a call that raised)
                return
            if a and a.get('tight') is False and a.get('clip') is not None:
                if res.get('exc') != 'ValueError':
                    h.violate(self.P, 'illegal_mode_accepted', detail='SetStrictRanges(tight=False, clip=%r) did not '
                              'raise ValueError (%r)' % (a.get('clip'), res), **self.tags(h))
            if h.started: self.box_changed = True
            elif 'exc' not in res: self.box_from_start = bool(a)
            self.ep.note(h, op, res)            # the box in force from here on (no-op if the call raised)
            legal = not (a and a.get('tight') is False and a.get('clip') is not None)
            if 'exc' in res and legal:
                lo, hi = (a or {}).get('lo', []), (a or {}).get('hi', [])
                deg = [l == u for l, u in zip(lo, hi)]
                h.violate(self.P, 'set_ranges_raised', detail='SetStrictRanges(%r) raised %s: %s' % (a, res['exc'], res.get('exc_msg', '')[:120]),
                          tight=(a or {}).get('tight'), clip=(a or {}).get('clip'), all_degenerate=bool(deg) and all(deg),
                          exc=res['exc'])
                # the call failed half way: which box is in force is undefined until the next successful call
                self.ep.cur['box'] = None; self.box_from_start = False
        if op['op'] == 'set' and op['what'] != 'bounds':
            self.ep.note(h, op, res)
        if op['op'] == 'set' and op['what'] == 'init' and 'lo' in (op.get('arg') or {}) and 'exc' not in res:
            a = op['arg']
            for i, m in enumerate(h.snap()['population']):
                if not in_box(m, (a['lo'], a['hi'])):
                    h.violate(self.P, 'initial_points_outside_limits', detail='member %d %r outside requested limits '
                              '%r..%r' % (i, m, a['lo'], a['hi']), **self.tags(h))
                    break
        if op['op'] in ('step', 'solve') and h.started:
            self.check_best(h, h.snap(), 'after_' + op['op'])


# =========================================================================== C03

class ConstraintOracle(object):
    """C03: hard constraints hold at every evaluation and for the reported result"""
    P = 'C03'
    def __init__(self):
        self.ep = Epochs()
        self.checked = 0
        self.best = EvaluatedOptimum()
        self.best.P = 'C03'
    def tags(self, h):
        e = self.ep.cur
        return {'constraint': (e['con'] or {}).get('family'), 'form': (e['con'] or {}).get('form'),
                'bounds': e['box'] is not None, 'tight': e['tight'], 'clip': e['clip'],
                'installed_midrun': self.ep.changed_after_start['con']}
    def scan(self, h):
        from . import env
        ev = h.run.evals
        con = self.ep.cur['con']
        if con is not None:
            if len(ev) > self.checked: h.run.probe('c03.evals_checked_against_constraint', len(ev) - self.checked)
            for i in range(self.checked, len(ev)):
                x = ev[i].x
                if tuple(env.con_apply(con, list(x))) != x and not any(v != v for v in x):
                    h.violate(self.P, 'cost_called_at_unconstrained_point', detail='cost call #%d at %r does not satisfy '
                              'the installed constraint %s (constraint maps it to %r)'
                              % (ev[i].n, x, con['family'], tuple(env.con_apply(con, list(x)))), **self.tags(h))
                    break
        self.checked = len(ev)
    def check_best(self, h, s, when):
        from . import env
        con = self.ep.cur['con']
        if con is None or self.ep.changed_after_start['con']: return
        be = s['bestEnergy']
        if not (isinstance(be, float) and finite(be)): return
        bs = tuple(s['bestSolution'])
        if tuple(env.con_apply(con, list(bs))) != bs:
            h.violate(self.P, 'best_not_fixed_point', detail='%s: reported solution %r (energy %r) does not satisfy the '
                      'constraint %s (maps to %r)' % (when, bs, be, con['family'],
                      tuple(env.con_apply(con, list(bs)))), **self.tags(h))
            return
        # energy of the constrained point: an evaluation at exactly that point with that energy
        ks = [i for i, e in enumerate(h.run.evals) if e.x == bs]
        ok = False
        for k_ in ks:
            e = h.run.evals[k_]; ep = self.ep.at(k_)
            p = env.pen_apply(ep['pen'], e.x) if ep['pen'] else 0.0
            if feq(canon(reduce_energy(e.y, p, ep['red'])), be): ok = True; break
        if not ok:
            h.violate(self.P, 'best_energy_not_of_constrained_point', detail='%s: reported energy %r is not the energy of the '
                      'reported constrained point %r (%d evaluations there)' % (when, be, bs, len(ks)), **self.tags(h))
    def on_step(self, h, s):
        self.scan(h)
        self.check_best(h, s, 'iteration_%d' % s['_step_no'])
    def after_op(self, h, op, res):
        self.scan(h)
        self.ep.note(h, op, res)
        if op['op'] in ('step', 'solve') and h.started:
            self.check_best(h, h.snap(), 'after_' + op['op'])


# =========================================================================== C10

class TermOracle(object):
    """C10: termination conditions mean what they say, alone and in combination"""
    P = 'C10'
    def __init__(self):
        self.seen = set()
    def on_step(self, h, s):
        self.check(h, s, 'iteration_%d' % s['_step_no'])
    def after_op(self, h, op, res):
        if h.started and op['op'] in ('step', 'solve', 'set', 'finalize'):
            self.check(h, h.snap(), 'after_' + op['op'])
    def conds(self, h):
        out = []
        if h.term_node is not None: out.append(('installed', h.term_node, h.term_twin))
        for i, (n, tw) in enumerate(h.forest): out.append(('forest%d' % i, n, tw))
        return out
    def check(self, h, s, when):
        from . import termref
        solver = h.solver
        for name, node, twin in self.conds(h):
            self.check_node(h, s, when, name, node, solver, top=True, twin=twin)
        self.boundary_probes(h, s, when, solver)
    def _call(self, obj, solver, *a):
        try:
            return obj(solver, *a)
        except Exception as e:
            return e
    def check_node(self, h, s, when, name, node, solver, top=False, twin=None):
        from . import termref
        obj = node.obj
        m_bool = self._call(obj, solver)
        m_info = self._call(obj, solver, True)
        if isinstance(m_bool, Exception) or isinstance(m_info, Exception):
            # a condition that raises on a reachable state is reported once per kind
            h.violate(self.P, 'condition_raised@%s' % node.t, detail='%s: %s raised %r' % (when, node.spec, m_bool if isinstance(m_bool, Exception) else m_info), cond=node.t)
            return None
        ref_sat, ref_docs = termref.evaluate(node, s)
        h.run.probe('c10.%s.%s' % (node.t, {True: 'T', False: 'F', None: 'U'}[ref_sat]))
        tags = {'cond': node.t, 'which': name.rstrip('0123456789')}
        if node.kids:
            kids = [self.check_node(h, s, when, name, k, solver) for k in node.kids]
            if all(k is not None for k in kids):
                want = all(kids) if node.t in ('And', 'When') else any(kids)
                if bool(m_bool) != want:
                    h.violate(self.P, 'and_or_when_algebra', detail='%s: %s(%s) returned %r with member results %r'
                              % (when, node.t, node.spec, m_bool, kids), **tags)
                # 'self' form: only satisfied members
                m_self = self._call(obj, solver, 'self')
                if not isinstance(m_self, Exception):
                    sat_members = [k.obj for k, r in zip(node.kids, kids) if r]
                    for mem in m_self:
                        if not any(mem is x or mem == x for x in sat_members):
                            h.violate(self.P, 'info_names_unsatisfied', detail="%s: %s 'self' form returned the unsatisfied "
                                      "member %r" % (when, node.t, getattr(mem, '__doc__', mem)), **tags)
                            break
                    if node.t == 'Or' and len(set(map(id, m_self))) < len(set(map(id, sat_members))) and \
                       len(set(sat_members)) == len(sat_members):
                        h.violate(self.P, 'info_names_unsatisfied', detail="%s: Or 'self' form dropped a satisfied member"
                                  % when, **tags)
        else:
            if ref_sat is not None and bool(m_bool) != ref_sat:
                h.violate(self.P, 'primitive_ne_definition@%s' % node.t, detail='%s: %s returned %r but its documented '
                          'inequality is %r on history tail %r' % (when, node.doc, bool(m_bool), ref_sat,
                          s['energy_history'][-4:]), **tags)
        if node.t.startswith('Collapse') and isinstance(m_info, str):
            self.check_mask_derivation(h, when, node, solver, m_info, tags)
        # info=True: names only satisfied primitives, empty iff unsatisfied
        if isinstance(m_info, str):
            named = set(m_info.split('; ')) if m_info else set()
            if bool(m_info) != bool(m_bool):
                h.violate(self.P, 'info_names_unsatisfied', detail='%s: %s: bool form %r but info form %r'
                          % (when, node.spec, m_bool, m_info), **tags)
            elif ref_docs is not None and named != ref_docs and ref_sat is not None:
                h.violate(self.P, 'info_names_unsatisfied', detail='%s: %s: info names %r, satisfied primitives are %r'
                          % (when, node.spec, sorted(named), sorted(ref_docs)), **tags)
        # rebuilt twin behaves identically
        if top and twin is not None:
            if isinstance(twin, Exception):
                h.violate(self.P, 'rebuilt_condition_differs', detail='%s: rebuilding %s from type/state raised %r'
                          % (when, node.spec, twin), **tags)
            else:
                t_bool = self._call(twin, solver); t_info = self._call(twin, solver, True)
                a = set(m_info.split('; ')) if isinstance(m_info, str) else m_info
                b = set(t_info.split('; ')) if isinstance(t_info, str) else t_info
                if bool(t_bool) != bool(m_bool) or a != b:
                    h.violate(self.P, 'rebuilt_condition_differs', detail='%s: %s -> %r/%r, rebuilt twin -> %r/%r'
                              % (when, node.spec, m_bool, m_info, t_bool, t_info), **tags)
        return bool(m_bool)
    def check_mask_derivation(self, h, when, node, solver, m_info, tags):
        """what Collapse() does to a termination -- derive a condition with a grown mask (mask.update_mask) -- must leave the
        condition it was derived from as it was: same reported state, same behaviour of a twin rebuilt from that state"""
        import mystic.termination as mt, mystic.mask as ma, mystic.collapse as ct
        from . import termref
        obj = node.obj
        want_mask = node.kw.get('mask')
        want_mask = set(want_mask['__set__']) if isinstance(want_mask, dict) else want_mask
        if m_info:
            try:
                col = ct.collapsed(m_info)
                if col: ma.update_mask(obj, col)
                h.run.probe('c10.mask_derived')
            except Exception as e:
                h.violate(self.P, 'condition_raised@%s' % node.t, detail='%s: deriving a masked copy of %s raised %r' % (when, node.spec, e), **tags)
                return
        try:
            st = mt.state(obj)[obj.__doc__]
        except Exception as e:
            h.violate(self.P, 'rebuilt_condition_differs', detail='%s: state(%s) raised %r' % (when, node.spec, e), **tags); return
        got = st.get('mask')
        if (set(got) if got is not None else None) != (set(want_mask) if want_mask is not None else None):
            h.violate(self.P, 'rebuilt_condition_differs', detail='%s: state() of %s reports mask=%r, it was built with mask=%r'
                      % (when, obj.__doc__, got, want_mask), **tags)
            return
        try:
            fresh = termref.rebuild(obj)
            a, b = obj(solver, True), fresh(solver, True)
        except Exception as e:
            h.violate(self.P, 'rebuilt_condition_differs', detail='%s: rebuilding %s raised %r' % (when, node.spec, e), **tags); return
        if a != b:
            h.violate(self.P, 'rebuilt_condition_differs', detail='%s: %s -> %r, a twin rebuilt from its state now -> %r' % (when, node.spec, a, b), **tags)

    def boundary_probes(self, h, s, when, solver):
        """conditions whose tolerance is exactly the difference the run produced (and one ulp less)"""
        import mystic.termination as mt
        hist = s['energy_history']
        if len(hist) < 2: return
        for g in (1, 2, 3):
            if len(hist) <= g: continue
            a, b = hist[-g], hist[-1]
            if not (finite(a) and finite(b)) or a == b: continue
            d = a - b
            if d <= 0: continue
            h.run.probe('c10.boundary')
            for cls, nm in ((mt.ChangeOverGeneration, 'COG'),):
                on = cls(tolerance=d, generations=g)(solver)
                off = cls(tolerance=math.nextafter(d, -inf), generations=g)(solver)
                if not on or off:
                    h.violate(self.P, 'primitive_ne_definition@%s' % nm, detail='%s: boundary: cost[-%d]-cost[-1]=%r; '
                              'tolerance=that -> %r (want True); one ulp less -> %r (want False)' % (when, g, d, on, off),
                              cond=nm, which='boundary')
            # normalized form: 2(a-b) <= tol(|a|+|b|)  <=>  tol >= 2(a-b)/(|a|+|b|)
        v = hist[-1]
        if finite(v) and v != 0:
            tgt = 0.0
            on = mt.VTR(tolerance=abs(v - tgt), target=tgt)(solver)
            off = mt.VTR(tolerance=math.nextafter(abs(v - tgt), -inf), target=tgt)(solver)
            if not on or off:
                h.violate(self.P, 'primitive_ne_definition@VTR', detail='%s: boundary: |cost[-1]-target|=%r: tolerance=that -> %r, '
                          'one ulp less -> %r' % (when, abs(v), on, off), cond='VTR', which='boundary')
            ev = s['evaluations']; gn = s['generations']
            for (kw, want) in (({'generations': gn}, True), ({'generations': gn + 1}, False),
                               ({'evaluations': ev}, True), ({'evaluations': ev + 1}, False)):
                got = bool(mt.EvaluationLimits(**kw)(solver))
                if got != want:
                    h.violate(self.P, 'primitive_ne_definition@EvaluationLimits', detail='%s: boundary: EvaluationLimits(%r) with '
                              'generations=%d evaluations=%d -> %r' % (when, kw, gn, ev, got), cond='EvaluationLimits', which='boundary')


# =========================================================================== C05

DEFAULT_SCALE = {'NM': (200, 200), 'Powell': (1000, 1000), 'DE': (10, 1000), 'DE2': (10, 1000)}

class LimitModel(object):
    """C05: stopping discipline -- limits, termination and exit requests are honoured"""
    P = 'C05'
    INTERNAL_ERRORS = ('TypeError', 'AttributeError', 'IndexError', 'KeyError', 'NameError', 'UnboundLocalError', 'AssertionError',
                       'RecursionError')
    def __init__(self):
        self.maxiter = None      # explicit absolute limits as the model understands them (None = default)
        self.maxfun = None
        self.exit_answered = False
        self.answers_seen = 0
        self.set_midrun = False
        self.last_limits_op = None
        self.steps_begun = 0
    def tags(self, h):
        return {'exit': self.exit_answered, 'limits': self.last_limits_op is not None, 'midrun_limits': self.set_midrun,
                'term': (h.term_spec or {}).get('t'), 'in_solve': h.in_solve}
    def _iters(self, h):
        return max(0, h.run.counts['_Step.done'] - 1)
    def _calls(self, h):
        return len([1 for e in h.run.evals if e.owner == h.cur])
    def after_op(self, h, op, res):
        if op['op'] == 'set' and op['what'] == 'limits' and 'exc' not in res:
            g, e = op['arg'][0], op['arg'][1]
            new = bool(op['arg'][2]) if len(op['arg']) > 2 else False
            it, ca = self._iters(h), self._calls(h)
            self.maxiter = None if g is None else (g + it if new else g)
            self.maxfun = None if e is None else (e + ca if new else e)
            self.last_limits_op = (g, e, new, it, ca)
            if h.started: self.set_midrun = True
            # bookkeeping visible to the user: explicit limits land in the solver as given / offset
            s = h.solver
            if g is not None and s._maxiter != (g + s.generations if new else g) and not (new and s._maxiter == g + it):
                h.violate(self.P, 'new_limit_miscounted', detail='SetEvaluationLimits(generations=%r,new=%r) at %d iterations '
                          'stored maxiter=%r' % (g, new, it, s._maxiter), **self.tags(h))
            if e is not None and s._maxfun != (e + ca if new else e):
                h.violate(self.P, 'new_limit_miscounted', detail='SetEvaluationLimits(evaluations=%r,new=%r) after %d real cost '
                          'calls stored maxfun=%r' % (e, new, ca, s._maxfun), **self.tags(h))
        if op['op'] in ('step', 'solve') and res.get('exc') in self.INTERNAL_ERRORS:
            # "hence Solve always returns": a legal sequence of Set*/Step/Solve calls that dies of an internal error (not an
            # injected fault, not an interrupt, not the rejection of an invalid setting) did not return
            h.violate(self.P, 'run_died_of_internal_error', detail='%s after %d completed iterations raised %s: %s'
                      % (op['op'], self._iters(h), res['exc'], (res.get('exc_msg') or '')[:200]), exc=res['exc'], **self.tags(h))
        if op['op'] in ('step', 'solve') and h.started and 'exc' not in res:
            self.check_final(h, op, res)
    def before_op(self, h, op):
        # Solve() starts by withdrawing a previous exit request (it re-arms the handler): a new Solve is a new run
        if op['op'] == 'solve':
            self.note_exit(h)
            self.exit_answered = False

    def note_exit(self, h):
        a = h.run.signal.answers
        for x in a[self.answers_seen:]:
            if x.lower() == 'exit': self.exit_answered = True
        self.answers_seen = len(a)
    def before_step(self, h, s, solver):
        """called as each _Step begins"""
        self.note_exit(h)
        n_done = h.run.counts['_Step.done']
        if n_done == 0 or not h.started and n_done == 0: return
        if h.run.counts['_Step.begin'] - 1 != n_done: return     # nested/odd: not a clean boundary
        from . import termref
        T = self.tags(h)
        it = max(0, n_done - 1); ca = self._calls(h)
        mi = self.maxiter if self.maxiter is not None else s['maxiter']
        mf = self.maxfun if self.maxfun is not None else s['maxfun']
        why = None
        if isinstance(mi, (int, float)) and it >= mi: why = 'iterations %d >= generation limit %r' % (it, mi)
        elif isinstance(mf, (int, float)) and ca >= mf: why = 'real cost calls %d >= evaluation limit %r' % (ca, mf)
        elif self.exit_answered: why = 'an exit request was answered (%r)' % (h.run.signal.answers,)
        elif h.term_node is not None:
            sat, docs = termref.evaluate(h.term_node, s)
            if sat is True: why = 'termination %s holds (%s)' % (h.term_spec, sorted(docs or []))
        if why:
            h.violate(self.P, 'step_begun_after_stop_condition', detail='_Step #%d begun although %s'
                      % (n_done + 1, why), **T)
    def on_step(self, h, s):
        self.note_exit(h)
        T = self.tags(h)
        mi = self.maxiter
        if mi is not None and h.plan['solver'] != 'Powell' and s['generations'] > max(mi, 0):
            h.violate(self.P, 'generations_exceed_limit', detail='generations=%d > generation limit %r'
                      % (s['generations'], mi), **T)
    def check_final(self, h, op, res):
        """the stop message names a condition that is actually true of the final state"""
        from . import termref
        self.note_exit(h)
        msg = res.get('ret')
        if op['op'] == 'step': msg = msg[-1] if msg else None
        if not msg: return
        s = h.snap()
        T = self.tags(h)
        mi, mf = s['maxiter'], s['maxfun']
        if msg == "EvaluationLimits with %s" % {'evaluations': h.solver._maxfun, 'generations': h.solver._maxiter}:
            ok = (isinstance(mf, (int, float)) and s['evaluations'] >= mf) or \
                 (isinstance(mi, (int, float)) and s['generations'] >= mi)
            if not ok:
                h.violate(self.P, 'stop_message_untrue', detail='%r but evaluations=%d generations=%d limits=%r/%r'
                          % (msg, s['evaluations'], s['generations'], mi, mf), **T)
        elif msg.startswith('SolverInterrupt'):
            if not (s['earlyexit'] and self.exit_answered):
                h.violate(self.P, 'stop_message_untrue', detail='%r but no exit was requested (tty answers %r)'
                          % (msg, h.run.signal.answers), **T)
        elif h.term_node is not None:
            named = set(msg.split('; '))
            # every named primitive must hold on the final state
            def leaves(n):
                if n.kids:
                    for k in n.kids:
                        for l in leaves(k): yield l
                else: yield n
            by_doc = {}
            for l in leaves(h.term_node): by_doc.setdefault(l.doc, []).append(l)
            for d in named:
                ls = by_doc.get(d)
                if not ls:
                    h.violate(self.P, 'stop_message_untrue', detail='stop message names %r which is not part of the '
                              'installed termination %s' % (d, h.term_spec), **T)
                    break
                vals = [termref.prim(l, s) for l in ls]
                if all(v is False for v in vals):
                    h.violate(self.P, 'stop_message_untrue', detail='stop message names %r but that condition does not '
                              'hold on the final state (history tail %r)' % (d, s['energy_history'][-3:]), **T)
                    break
