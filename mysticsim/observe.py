"""Canonical, deep snapshots of a solver's observable state, and digests."""
import hashlib
import numpy

def canon(v):
    """convert nested numpy / list data to hashable canonical python values"""
    if v is None or isinstance(v, (str, bool, int)):
        return v
    if isinstance(v, numpy.generic):
        return canon(v.item())
    if isinstance(v, float):
        return v
    if isinstance(v, numpy.ndarray):
        if v.ndim == 0: return canon(v.item())
        return tuple(canon(i) for i in v.tolist())
    if isinstance(v, (list, tuple)):
        return tuple(canon(i) for i in v)
    if isinstance(v, dict):
        return tuple(sorted((str(k), canon(x)) for k, x in v.items()))
    if isinstance(v, (set, frozenset)):
        return tuple(sorted(canon(i) for i in v))
    return repr(v)

def canon_msg(msg):
    """termination messages are '; '.join(set(...)): order is hash dependent -> sort"""
    if not msg: return msg if msg is None else ''
    if not isinstance(msg, str): return repr(msg)
    return '; '.join(sorted(msg.split('; ')))

def canon_info(v):
    """monitor info records: 'STOP("a; b")' carries a set-ordered termination message"""
    if isinstance(v, str) and v.startswith('STOP("') and v.endswith('")'):
        return 'STOP("%s")' % canon_msg(v[6:-2])
    if isinstance(v, str) and 'mysticsim-' in v:
        # DUMPED("...")/LOADED("...") notes carry the per-process scratch directory
        import re
        return re.sub(r'[^"\s]*mysticsim-\d+-[^/"]+', '<scratch>', v)
    return canon(v)

def feq(a, b):
    """exact equality of canonical values, treating nan == nan"""
    if isinstance(a, tuple) and isinstance(b, tuple):
        return len(a) == len(b) and all(feq(i, j) for i, j in zip(a, b))
    if isinstance(a, float) and isinstance(b, float):
        return a == b or (a != a and b != b)
    if isinstance(a, (int, float)) and isinstance(b, (int, float)) \
       and not isinstance(a, bool) and not isinstance(b, bool):
        return float(a) == float(b) or (a != a and b != b)
    return a == b

def monitor_snap(m):
    if m is None: return None
    return {'type': type(m).__name__,
            'x': canon(getattr(m, '_x', ())), 'y': canon(getattr(m, '_y', ())),
            'id': canon(getattr(m, '_id', ())), 'info': tuple(canon_info(i) for i in (getattr(m, '_info', ()) or ())),
            'k': canon(getattr(m, 'k', None))}

def solver_snap(s, monitors=True):
    d = {}
    d['type'] = type(s).__name__
    d['population'] = canon(s.population)
    d['popEnergy'] = canon(s.popEnergy)
    d['bestSolution'] = canon(s.bestSolution)
    d['bestEnergy'] = canon(s.bestEnergy)
    d['evaluations'] = canon(s.evaluations)
    d['generations'] = canon(s.generations)
    d['energy_history'] = canon(list(s.energy_history))
    d['solution_history'] = canon(list(s.solution_history))
    d['maxiter'] = canon(s._maxiter)
    d['maxfun'] = canon(s._maxfun)
    d['earlyexit'] = bool(s._EARLYEXIT)
    if monitors:
        d['stepmon'] = monitor_snap(s._stepmon)
        d['evalmon'] = monitor_snap(s._evalmon)
    if hasattr(s, '_direc'):
        d['direc'] = canon(s._direc)
        d['internals'] = canon(getattr(s, '_PowellDirectionalSolver__internals', None))
    if hasattr(s, 'genealogy'):
        d['genealogy_len'] = tuple(len(g) for g in s.genealogy)
    return d

def digest(obj):
    return hashlib.sha1(repr(canon(obj)).encode()).hexdigest()

def first_diff(a, b, path=''):
    """path of the first difference between two canonical structures (dicts/tuples)"""
    if isinstance(a, dict) and isinstance(b, dict):
        for k in sorted(set(a) | set(b)):
            if k not in a or k not in b:
                return path + '/' + k
            r = first_diff(a[k], b[k], path + '/' + k)
            if r: return r
        return None
    if isinstance(a, tuple) and isinstance(b, tuple):
        if len(a) != len(b): return path + '#len(%d!=%d)' % (len(a), len(b))
        for i, (x, y) in enumerate(zip(a, b)):
            r = first_diff(x, y, path + '[%d]' % i)
            if r: return r
        return None
    return None if feq(a, b) else path + '(%r!=%r)' % (a, b)
