"""Shared plan generator / executor for the single-solver properties (C01-C05, C10).

A plan is {property, seed, solver, dim, npop, cost, lib_seed, ops[], faults[], clock{}}.
Generation is swarm style: each run draws its own sizes, op mix and enabled features from
the knobs of the property that asks.
"""
import hashlib
from . import env, gen, observe, engine
from .env import sub_rng

inf = float('inf')

DEFAULT_KNOBS = dict(
    solvers=['NM', 'Powell', 'DE', 'DE2'],
    max_dim=4, p_bounds=0.4, p_constraint=0.3, p_penalty=0.3, p_vector=0.1, p_term=0.7,
    p_limits=0.5, p_midrun_set=0.4, p_solve=0.5, p_finalize=0.15, p_monitors=0.5,
    p_logging=0.15, p_exotic_box=0.3, p_resume=0.3, max_ops=10, max_step_n=6,
    cost_models=None, midrun_sets=('limits', 'penalty', 'constraint', 'bounds', 'termination', 'evalmon', 'stepmon'),
    tight_modes=((None, None), (True, None), (False, None), (True, True), (None, True)),
    p_clipfalse=0.0, constraint_forms=('pure', 'inplace', 'alias'), p_x0_outside=0.3,
    p_hostile=0.0, p_illegal=0.0, reducers=('max', 'min', 'first'),
    p_interrupt=0.0, p_handler=0.0, p_clock=0.0, p_de_knobs=0.5, small_limits=True,
)

STRATEGIES = ['Best1Exp', 'Best1Bin', 'Rand1Exp', 'Rand1Bin', 'RandToBest1Exp', 'RandToBest1Bin',
              'Best2Exp', 'Best2Bin', 'Rand2Exp', 'Rand2Bin']

def gen_bounds_arg(rng, dim, k, exotic):
    lo, hi = gen.gen_box(rng, dim, exotic=exotic)
    tight, clip = rng.choice(list(k['tight_modes']))
    if rng.random() < k['p_clipfalse']:
        tight, clip = rng.choice([(True, False), (None, False)])
    arg = {'lo': lo, 'hi': hi}
    if tight is not None or rng.random() < 0.3: arg['tight'] = tight
    if clip is not None: arg['clip'] = clip
    return arg

def int_box(arg):
    """round finite bounds to integers (so that rounding constraints are box compatible)"""
    import math
    lo = [b if b in (inf, -inf) else float(math.floor(b)) for b in arg['lo']]
    hi = [b if b in (inf, -inf) else float(math.ceil(b)) for b in arg['hi']]
    a = dict(arg); a['lo'] = lo; a['hi'] = hi
    return a

def rejected_bounds(rng, bounds, dim):
    bad = {'lo': list(bounds['lo']), 'hi': list(bounds['hi']), 'invalid': True}
    i = rng.randrange(dim)
    l_, h_ = bad['lo'][i], bad['hi'][i]
    if l_ == h_ or abs(l_) == inf or abs(h_) == inf: bad['lo'][i], bad['hi'][i] = 2.0, 1.0
    else: bad['lo'][i], bad['hi'][i] = h_, l_
    t_ = rng.choice([(True, None), (True, None), (None, None), (None, True), (True, False), (False, None)])
    if t_[0] is not None: bad['tight'] = t_[0]
    if t_[1] is not None: bad['clip'] = t_[1]
    return bad

def gen_limits(rng, k, solver, dim):
    small = k['small_limits']
    g = rng.choice([None, None, 0, 1, 2, 3, 5, 8, 12] if small else [None, 5, 10, 20, 40])
    e = rng.choice([None, None, 0, 1, 2, 5, 10, 25, 60] if small else [None, 50, 200, 1000])
    new = rng.random() < 0.3
    return [g, e, new]

def gen_solver_plan(seed, tier, prop, knobs=None):
    k = dict(DEFAULT_KNOBS); k.update(knobs or {})
    rng = sub_rng(seed, 'plan')
    solver = rng.choice(k['solvers'])
    dim = rng.randint(k.get('min_dim', 1), k['max_dim'])
    plan = {'property': prop, 'seed': seed, 'tier': tier, 'solver': solver, 'dim': dim,
            'lib_seed': rng.randrange(1 << 30)}
    if solver in ('DE', 'DE2'):
        plan['npop'] = rng.choice([4, 4, 5, 6, 8])
    vector = rng.random() < k['p_vector']
    plan['cost'] = gen.gen_cost(rng, dim, k['cost_models'], vector=vector)
    ops = []
    # ---- configuration before the first step
    bounds = None
    if rng.random() < k['p_bounds']:
        bounds = gen_bounds_arg(rng, dim, k, rng.random() < k['p_exotic_box'])
    con = None
    if rng.random() < k['p_constraint']:
        if bounds is not None and rng.random() < 0.5: bounds = int_box(bounds)
        con = gen.gen_constraint(rng, dim, (bounds['lo'], bounds['hi']) if bounds else None,
                                 forms=k['constraint_forms'])
    if bounds is not None and rng.random() < k['p_hostile']:
        i = rng.randrange(dim)
        if rng.random() < 0.5:
            con = {'family': 'push_out', 'form': rng.choice(['pure', 'inplace']),
                   'params': {'i': i, 'by': rng.choice([-50.0, -1.0, 0.75, 3.0, 1e6])}}
        else:
            l, h_ = bounds['lo'][i], bounds['hi'][i]
            a = l if l > -inf else -5.0
            b = h_ if h_ < inf else 5.0
            t = round(rng.uniform(a, b), 2)
            to = (h_ + rng.choice([0.5, 10.0])) if h_ < inf else 1e9
            con = {'family': 'push_if', 'form': rng.choice(['pure', 'inplace', 'alias']),
                   'params': {'i': i, 't': t, 'to': max(to, t + 1.0)}}
    if solver in ('DE', 'DE2') and rng.random() < 0.7:
        if bounds and all(b not in (inf, -inf) for b in bounds['lo'] + bounds['hi']) and rng.random() < 0.6:
            init = {'lo': list(bounds['lo']), 'hi': list(bounds['hi'])}
        else:
            lo, hi = gen.gen_box(rng, dim, exotic=False)
            init = {'lo': lo, 'hi': hi}
    else:
        if bounds and rng.random() > k['p_x0_outside']:
            x0 = gen.inside(rng, bounds['lo'], bounds['hi'])
        else:
            x0 = gen.gen_x0(rng, dim)
        init = {'x0': x0}
    conf = [{'op': 'set', 'what': 'init', 'arg': init}]
    if bounds: conf.append({'op': 'set', 'what': 'bounds', 'arg': bounds})
    if con: conf.append({'op': 'set', 'what': 'constraint', 'arg': con})
    if rng.random() < k['p_penalty']:
        conf.append({'op': 'set', 'what': 'penalty', 'arg': gen.gen_penalty(rng, dim)})
    if vector:
        conf.append({'op': 'set', 'what': 'reducer', 'arg': rng.choice(list(k['reducers']))})
    if rng.random() < k['p_term']:
        t = gen.gen_simple_term(rng, solver)
        if t: conf.append({'op': 'set', 'what': 'termination', 'arg': t})
    if rng.random() < k['p_limits']:
        conf.append({'op': 'set', 'what': 'limits', 'arg': gen_limits(rng, k, solver, dim)})
    if rng.random() < k['p_monitors']:
        kind = 'Logging' if rng.random() < k['p_logging'] else rng.choice(['Monitor', 'Verbose'])
        conf.append({'op': 'set', 'what': 'stepmon', 'arg': {'kind': kind, 'file': 'step.log'}})
    if rng.random() < k['p_monitors']:
        kind = 'Logging' if rng.random() < k['p_logging'] else 'Monitor'
        conf.append({'op': 'set', 'what': 'evalmon', 'arg': {'kind': kind, 'file': 'eval.log'}})
    if solver in ('DE', 'DE2') and rng.random() < k['p_de_knobs']:
        conf.append({'op': 'set', 'what': 'de', 'arg': {'strategy': rng.choice(STRATEGIES),
                     'CR': rng.choice([0.0, 0.3, 0.5, 0.9, 1.0]), 'F': rng.choice([0.4, 0.8, 1.2])}})
    if rng.random() < k['p_handler']:
        conf.append({'op': 'set', 'what': 'handler', 'arg': True})
    if solver == 'DE2' and rng.random() < k.get('p_mapper', 0.3):
        # a user-supplied map: item order, threads under the baton scheduler, or a process boundary (arguments and results
        # are copies, as with a process pool)
        m = rng.choice([{'mode': 'serial'}, {'mode': 'reversed'}, {'mode': 'shuffled'}, {'mode': 'process'}, {'mode': 'process'},
                        {'mode': 'threads', 'workers': rng.choice([1, 2, 4])}])
        conf.append({'op': 'set', 'what': 'mapper', 'arg': dict(m, salt=0)})
        plan['map'] = m['mode']
    head, tail = conf[:1], conf[1:]
    rng.shuffle(tail)
    if bounds and rng.random() < k.get('p_reject', 0.0):
        # a reconfiguration that must be rejected (min > max on one side), right after the ranges were installed
        bi = next(i for i, o in enumerate(tail) if o['what'] == 'bounds')
        tail.insert(bi + 1, {'op': 'set', 'what': 'bounds', 'arg': rejected_bounds(rng, bounds, dim)})
    if rng.random() < 0.3:
        tail.insert(rng.randrange(len(tail) + 1), {'op': 'set', 'what': 'objective'})
    ops = head + tail
    # ---- the run itself
    nops = rng.randint(1, k['max_ops']) if k['max_ops'] >= 1 else 0
    for _ in range(nops):
        c = rng.random()
        if c < 0.5:
            ops.append({'op': 'step', 'n': rng.randint(1, k['max_step_n'])})
        elif c < 0.5 + 0.5 * k['p_midrun_set']:
            what = rng.choice(list(k['midrun_sets']))
            if what == 'limits':
                ops.append({'op': 'set', 'what': 'limits', 'arg': gen_limits(rng, k, solver, dim)})
            elif what == 'penalty':
                pa = gen.gen_penalty(rng, dim) if rng.random() < 0.8 else None
                if pa is not None and rng.random() < 0.3:
                    ops.append({'op': 'step', 'n': rng.randint(1, 3), 'penalty_kw': pa})
                else:
                    ops.append({'op': 'set', 'what': 'penalty', 'arg': pa})
            elif what == 'constraint':
                b = (bounds['lo'], bounds['hi']) if bounds else None
                con = gen.gen_constraint(rng, dim, b, forms=k['constraint_forms']) if rng.random() < 0.8 else None
                if gen.compatible(con, b):
                    if con is not None and rng.random() < 0.35:
                        # installed through the keyword of the very Step that runs the next iteration
                        ops.append({'op': 'step', 'n': rng.randint(1, 3), 'constraint_kw': con})
                    else:
                        ops.append({'op': 'set', 'what': 'constraint', 'arg': con})
            elif what == 'bounds':
                if rng.random() < 0.2 and bounds is not None:
                    # switch the ranges off, run a little, and (half of the time) switch the very same ranges on again
                    last_box = dict(bounds)
                    bounds = None
                    ops.append({'op': 'set', 'what': 'bounds', 'arg': None})
                    if rng.random() < 0.6:
                        ops.append({'op': 'step', 'n': rng.randint(1, 4)})
                        if con is not None and not gen.compatible(con, (last_box['lo'], last_box['hi'])):
                            con = None; ops.append({'op': 'set', 'what': 'constraint', 'arg': None})
                        bounds = last_box
                        ops.append({'op': 'set', 'what': 'bounds', 'arg': dict(last_box)})
                        ops.append({'op': 'step', 'n': rng.randint(1, 4)})
                elif rng.random() < 0.2:
                    bounds = None
                    ops.append({'op': 'set', 'what': 'bounds', 'arg': None})
                else:
                    nb = gen_bounds_arg(rng, dim, k, rng.random() < k['p_exotic_box'])
                    if con is not None and not gen.compatible(con, (nb['lo'], nb['hi'])):
                        nb = int_box(nb)
                    if con is not None and not gen.compatible(con, (nb['lo'], nb['hi'])):
                        con = None      # drop the constraint first: the new box does not fit it
                        ops.append({'op': 'set', 'what': 'constraint', 'arg': None})
                    bounds = nb
                    ops.append({'op': 'set', 'what': 'bounds', 'arg': bounds})
                    if rng.random() < k['p_illegal']:
                        bad = dict(bounds); bad['tight'] = False; bad['clip'] = rng.choice([True, False])
                        ops.append({'op': 'set', 'what': 'bounds', 'arg': bad})
                    if rng.random() < k.get('p_reject', 0.0):
                        # a reconfiguration that must be rejected (min > max on one side): the ranges in force stay in force
                        ops.append({'op': 'set', 'what': 'bounds', 'arg': rejected_bounds(rng, bounds, dim)})
            elif what == 'termination':
                t = gen.gen_simple_term(rng, solver)
                if t: ops.append({'op': 'set', 'what': 'termination', 'arg': t})
            elif what == 'evalmon':
                ops.append({'op': 'set', 'what': 'evalmon', 'arg': {'kind': 'Monitor', 'new': rng.random() < 0.3}})
            elif what == 'stepmon':
                ops.append({'op': 'set', 'what': 'stepmon', 'arg': {'kind': rng.choice(['Monitor', 'Verbose'])}})
        elif c < 0.5 + 0.5 * k['p_midrun_set'] + 0.5 * k['p_solve'] * (1 - k['p_midrun_set']):
            ops.append({'op': 'solve'})
        elif rng.random() < k['p_finalize']:
            ops.append({'op': 'finalize'})
        else:
            ops.append({'op': 'step', 'n': 1})
    plan['ops'] = ops
    plan['faults'] = []
    return plan


def install_faults(run, plan):
    for f in plan.get('faults', []):
        seam, n = f['at'].split('#')
        run.faults[(seam, int(n))] = f

def run_solver_plan(plan, oracle_classes, hang_is=None, budget=None):
    """execute; returns result dict for the runner"""
    from . import fs as simfs
    run = env.Run(plan['seed'], budget=budget or 300000)
    env.begin(run)
    install_faults(run, plan)
    ck = plan.get('clock')
    if ck:
        crng = sub_rng(plan['seed'], 'env')
        scale = ck.get('scale', 1.0)
        table = [scale * crng.choice([1e-6, 1e-3, 0.1, 1.0, 30.0]) for _ in range(64)]
        run.cost_dt = lambda n: table[n % 64]
    run.fs = simfs.SimFS(run)
    run.fs.plant()
    h = None
    try:
        with engine.patched_world(run):
            h = engine.Harness(run, plan, [c() for c in oracle_classes])
            h.build()
            try:
                for op in plan['ops']:
                    r = h.do(op)
                    if r.get('exc') == 'KeyboardInterrupt':
                        break         # Ctrl-C with no handler installed: the user's program ends here
                    if r.get('exc') == 'SimFault' and not plan.get('continue_after_fault'):
                        break         # an injected I/O error reached the caller: the user's program ends here
                    # (continue_after_fault: the caller handles the failure of its cost function and carries on)
            except env.SimHang as e:
                if hang_is:
                    h.violate(hang_is[0], hang_is[1], detail=str(e))
                else:
                    raise env.HarnessError("unexpected hang: %s" % e)
            viol = h.finish()
            final = h.snap()
            reach_probes(plan, run, h)
    finally:
        run.fs.cleanup()
        env.end()
    tr = repr(observe.canon(run.trace)) + repr(observe.canon(final)) + repr(len(run.evals))
    return {'violations': viol, 'digest': hashlib.sha1(tr.encode()).hexdigest(),
            'probes': run.probes, 'fired': run.fired, 'sim_s': run.clock.covered,
            'nontrivial': len(run.evals) > 1 and h.steps_executed > 1,
            'stats': {'cost_calls': len(run.evals), 'steps': h.steps_executed, 'ops': len(plan['ops']),
                      'seam_crossings': run.ncross}}


def reach_probes(plan, run, h):
    """'this condition was actually exercised' counters for the evidence file (plan features that
    were executed + runtime facts); never draws, never reads a clock"""
    P = run.probe
    P('solver.%s' % plan['solver'])
    P('cost.%s' % plan['cost']['model'])
    started = False
    for (i, op, res) in h.history:
        k = op['op']
        if k == 'set':
            w = op['what']; a = op.get('arg')
            tag = 'midrun' if started else 'initial'
            if w == 'bounds':
                if not a: P('bounds.removed.%s' % tag)
                else:
                    P('bounds.%s.tight=%s.clip=%s' % (tag, a.get('tight'), a.get('clip')))
                    if any(l == u for l, u in zip(a['lo'], a['hi'])): P('bounds.degenerate_side')
                    if any(abs(v) == inf for v in a['lo'] + a['hi']): P('bounds.infinite_side')
            elif w == 'constraint' and a: P('constraint.%s.%s.%s' % (tag, a['family'], a.get('form')))
            elif w == 'penalty' and a: P('penalty.%s.%s' % (tag, a['kind']))
            elif w == 'reducer' and a: P('reducer.%s' % a)
            elif w == 'termination' and a: P('termination.%s.%s' % (tag, a['t']))
            elif w == 'limits':
                g, e = a[0], a[1]
                P('limits.%s%s' % (tag, '.new' if (len(a) > 2 and a[2]) else ''))
                if g in (0, 1) or e in (0, 1): P('limits.zero_or_one')
            elif w in ('stepmon', 'evalmon') and a: P('%s.%s.%s' % (w, tag, a.get('kind')))
            elif w in ('objective', 'handler', 'de'): P('set.%s' % w)
        elif k in ('step', 'solve', 'finalize'):
            P('op.%s' % k)
            if k != 'finalize': started = True
            if res.get('steps', 0) == 0 and k != 'finalize': P('op.%s.no_iteration_executed' % k)
            ret = res.get('ret')
            msgs = ret if isinstance(ret, tuple) else ((ret,) if ret else ())
            for m in msgs:
                if m:
                    for part in str(m).split('; '): P('stop.%s' % part.split(' ')[0])
    if any(isinstance(e.y, float) and abs(e.y) == inf for e in run.evals): P('cost_returned_inf')
    if any(isinstance(e.y, float) and e.y != e.y for e in run.evals): P('cost_returned_nan')
    if h.steps_executed > h.THIN_AFTER: P('long_run_thinned')


def simplify_solver_plan(plan):
    """candidate simplifications (each a full plan), simplest-first"""
    # drop whole config features
    for i, op in enumerate(plan['ops']):
        if op['op'] == 'set' and op['what'] not in ('init',):
            p = dict(plan); p['ops'] = plan['ops'][:i] + plan['ops'][i + 1:]
            yield p
    # shrink step counts
    for i, op in enumerate(plan['ops']):
        if op['op'] == 'step' and op.get('n', 1) > 1:
            for n in (1, op['n'] // 2, op['n'] - 1):
                if 1 <= n < op['n']:
                    q = dict(op); q['n'] = n
                    p = dict(plan); p['ops'] = plan['ops'][:i] + [q] + plan['ops'][i + 1:]
                    yield p
    # solve -> a few steps
    for i, op in enumerate(plan['ops']):
        if op['op'] == 'solve':
            p = dict(plan); p['ops'] = plan['ops'][:i] + [{'op': 'step', 'n': 3}] + plan['ops'][i + 1:]
            yield p
    # smaller dimension is not attempted (specs are dimension-bound); simpler cost model
    if plan['cost']['model'] not in ('quad',) and 'a' in plan['cost']['params']:
        p = dict(plan); p['cost'] = {'model': 'quad', 'params': {kk: plan['cost']['params'][kk] for kk in ('a', 'c')}}
        yield p
    if plan.get('faults'):
        for i in range(len(plan['faults'])):
            p = dict(plan); p['faults'] = plan['faults'][:i] + plan['faults'][i + 1:]
            yield p


def valid_solver_plan(plan):
    """preconditions of the properties that a (minimised) plan must keep: every constraint in
    force is compatible with the strict box in force whenever a step may run"""
    box = None; con = None
    for op in plan['ops']:
        if op['op'] == 'set':
            if op['what'] == 'bounds':
                a = op.get('arg')
                box = (a['lo'], a['hi']) if a else None
            elif op['what'] == 'constraint':
                con = op.get('arg')
        elif op['op'] in ('step', 'solve'):
            if 'constraint_kw' in op: con = op['constraint_kw']
            if not gen.compatible(con, box): return False
    return True
