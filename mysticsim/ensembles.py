"""Shared machinery for the ensemble / map properties (C07, C09): building an ensemble or a
DE2 solver from a plan under a given map mode and drive mode, and snapshotting it."""
import itertools, random as _random
import numpy
from . import env, engine, observe, gen, maps
from .env import SimCost, SimConstraint, SimPenalty, SimCallback
from .observe import canon

NESTED = {'NM': 'NelderMeadSimplexSolver', 'Powell': 'PowellDirectionalSolver', 'DE': 'DifferentialEvolutionSolver'}

def nested_instance(plan, configured=True):
    """a configured nested-solver INSTANCE (the documented alternative to passing the class): the ensemble deep-copies
    it for every member, so the user's instance can be handed to one ensemble after another"""
    import mystic.solvers as ms
    cls = getattr(ms, NESTED[plan['nested']])
    inst = cls(plan['dim'], plan['nested_np']) if plan.get('nested_np') else cls(plan['dim'])
    if configured: configure_instance(inst, plan)
    return inst

def configure_instance(inst, plan):
    # with an instance the ensemble applies none of its own settings to the members: the user configures the instance
    # (here: exactly as the ensemble is configured, objective included)
    inst.SetRandomInitialPoints()
    b = plan.get('bounds')
    if b:
        kw = {}
        if 'tight' in b: kw['tight'] = b['tight']
        if 'clip' in b: kw['clip'] = b['clip']
        inst.SetStrictRanges(list(b['lo']), list(b['hi']), **kw)
    if plan.get('constraint'): inst.SetConstraints(SimConstraint(plan['constraint']))
    if plan.get('penalty'): inst.SetPenalty(SimPenalty(plan['penalty']))
    if plan.get('termination'): inst.SetTermination(engine.build_term(plan['termination']))
    if plan.get('limits'): inst.SetEvaluationLimits(plan['limits'][0], plan['limits'][1])
    if plan.get('instance_objective', True): inst.SetObjective(SimCost(plan['cost']))
    # (without an objective of its own the members minimise the objective of the ensemble they are running in)
    return inst

def build_ensemble(plan, run, map_spec, instance=None):
    import mystic.solvers as ms
    import mystic.ensemble as me
    dim = plan['dim']
    kind = plan['ensemble']
    if kind == 'Lattice': s = me.LatticeSolver(dim, nbins=plan['nbins'] if not isinstance(plan['nbins'], list) else tuple(plan['nbins']))
    elif kind == 'Buckshot': s = me.BuckshotSolver(dim, npts=plan['npts'])
    else: s = me.SparsitySolver(dim, npts=plan['npts'])
    nested = getattr(ms, NESTED[plan['nested']])
    if instance is not None: s.SetNestedSolver(instance)
    elif plan.get('nested_np'): s.SetNestedSolver(nested, NP=plan['nested_np'])
    else: s.SetNestedSolver(nested)
    peers = {'cost': SimCost(plan['cost']), 'con': None, 'pen': None}
    b = plan.get('bounds')
    if b:
        kw = {}
        if 'tight' in b: kw['tight'] = b['tight']
        if 'clip' in b: kw['clip'] = b['clip']
        s.SetStrictRanges(list(b['lo']), list(b['hi']), **kw)
    if plan.get('constraint'):
        peers['con'] = SimConstraint(plan['constraint']); s.SetConstraints(peers['con'])
    if plan.get('penalty'):
        peers['pen'] = SimPenalty(plan['penalty']); s.SetPenalty(peers['pen'])
    if plan.get('termination'):
        s.SetTermination(engine.build_term(plan['termination']))
    if plan.get('limits'):
        s.SetEvaluationLimits(plan['limits'][0], plan['limits'][1])
    if plan.get('evalmon'):
        import mystic.monitors as mm
        em = mm.Monitor()
        for k in range(plan.get('evalmon_legacy') or 0):
            em([0.25 * k - 0.5] * dim, 10.0 + k)
        s.SetEvaluationMonitor(em)
    if map_spec is not None:
        s.SetMapper(maps.make_map(map_spec))
    return s, peers

def ens_snap(s):
    d = {
        'bestEnergy': canon(s.bestEnergy), 'bestSolution': canon(s.bestSolution),
        'all_bestEnergy': canon(s._all_bestEnergy), 'all_bestSolution': canon(s._all_bestSolution),
        'total_evals': canon(s._total_evals), 'all_evals': canon(s._all_evals),
        'all_iters': canon(s._all_iters), 'generations': canon(s.generations),
        'evaluations': canon(s.evaluations),
        'stepmon_y': canon(getattr(s._stepmon, '_y', ())), 'stepmon_x': canon(getattr(s._stepmon, '_x', ())),
        'energy_history': canon(list(s.energy_history)),
        'nmembers': len(s._allSolvers),
    }
    return d

def drive(s, peers, plan, run, mode, nsteps, snaps=None):
    """mode: 'solve' | 'solve_step' | 'steps' (manual Step loop)"""
    cost = peers['cost']
    cb = SimCallback('ens')
    if mode == 'solve':
        s.Solve(cost, callback=cb)
    elif mode == 'solve_step':
        s.Solve(cost, callback=cb, step=True)
    elif mode == 'while':
        # the documented idiom: the status is queried BEFORE anything has run, and before every further step
        first = True; n = 0
        while not s.Terminated() and n < nsteps:
            s.Step(cost if first else None, callback=cb)
            first = False; n += 1
            if snaps is not None:
                snaps.append(ens_snap(s)); snaps[-1]['_nevals'] = len(run.evals)
    else:
        first = True
        for i in range(nsteps):
            msg = s.Step(cost if first else None, callback=cb)
            first = False
            if snaps is not None:
                snaps.append(ens_snap(s)); snaps[-1]['_nevals'] = len(run.evals)
            if msg: break
    return ens_snap(s)

def gen_ensemble_plan(rng, seed, tier, prop):
    dim = rng.randint(1, 3)
    kind = rng.choice(['Lattice', 'Lattice', 'Buckshot', 'Buckshot'])
    plan = {'property': prop, 'seed': seed, 'tier': tier, 'dim': dim, 'ensemble': kind,
            'nested': rng.choice(['NM', 'NM', 'Powell']), 'lib_seed': rng.randrange(1 << 30)}
    if kind == 'Lattice':
        if rng.random() < 0.5:
            nb = [rng.choice([1, 1, 2, 3]) for _ in range(dim)]
            while numpy.prod(nb) > 9: nb[rng.randrange(dim)] = 1
            plan['nbins'] = nb
        else:
            plan['nbins'] = rng.choice([1, 2, 3, 4, 5, 6, 7, 8])      # (primes can only be binned along one axis)
    else:
        plan['npts'] = rng.choice([1, 2, 3, 4, 6, 8])
    plan['cost'] = gen.gen_cost(rng, dim, ['quad', 'quad', 'rosen', 'abs', 'quant', 'maxabs'])
    if rng.random() < 0.8:
        lo, hi = gen.gen_box(rng, dim, exotic=False)
        b = {'lo': lo, 'hi': hi}
        t, c = rng.choice([(None, None), (None, None), (True, None), (None, True)])
        if t is not None: b['tight'] = t
        if c is not None: b['clip'] = c
        plan['bounds'] = b
    box = (plan['bounds']['lo'], plan['bounds']['hi']) if plan.get('bounds') else None
    if rng.random() < 0.3:
        if box and rng.random() < 0.5:
            from .solverplan import int_box
            plan['bounds'] = int_box(plan['bounds']); box = (plan['bounds']['lo'], plan['bounds']['hi'])
        plan['constraint'] = gen.gen_constraint(rng, dim, box)
        if not gen.compatible(plan['constraint'], box): plan['constraint'] = None
    if rng.random() < 0.3: plan['penalty'] = gen.gen_penalty(rng, dim)
    if rng.random() < 0.65:
        # conditions that some members meet several ensemble steps before others do (a finished member is then
        # carried along, and stepped again, while the rest still run)
        if plan['nested'] == 'NM' and rng.random() < 0.5:
            t = {'t': 'CRT', 'kw': {'xtol': rng.choice([1e-2, 0.05, 0.1, 0.3]), 'ftol': rng.choice([1e-2, 0.1, 0.3, 1.0])}}
        else:
            t = gen.gen_simple_term(rng, plan['nested'])
        if t: plan['termination'] = t
    plan['limits'] = [rng.choice([0, 1, 2, 3, 5, 8, 12, 20, 30, 45]), rng.choice([None, None, 1, 40, 100, 400])]
    if rng.random() < 0.12 and plan['nested'] != 'DE':
        # no limits set on the ensemble at all: the members run under their own defaults until a termination they can reach
        plan['limits'] = [None, None]
        plan['cost'] = gen.gen_cost(rng, dim, ['quad', 'quad', 'rosen', 'abs'])
        if plan['nested'] == 'NM':
            plan['termination'] = {'t': 'CRT', 'kw': {'xtol': rng.choice([1e-4, 1e-3]), 'ftol': rng.choice([1e-4, 1e-3])}}
        else:
            plan['termination'] = {'t': 'NCOG', 'kw': {'tolerance': 1e-4, 'generations': 2}}
        plan['constraint'] = None
    plan['evalmon'] = rng.random() < 0.4
    if plan['evalmon']:
        # an evaluation monitor that already holds records when it is handed over (legacy samples; a monitor reused from an
        # earlier run): the members' logs start with them, their counters must not  (drawn from a named sub-stream so that the
        # rest of the plan is what it was before this option existed)
        from .env import sub_rng
        plan['evalmon_legacy'] = sub_rng(seed, 'evalmon_legacy').choice([0, 0, 1, 3, 7])
    plan['nsteps'] = rng.randint(2, 10)
    return plan

def map_specs(rng, tier, n=3):
    pool = [{'mode': 'serial'}, {'mode': 'reversed'}, {'mode': 'shuffled'},
            {'mode': 'threads', 'workers': rng.choice([1, 2, 3, 8])},
            {'mode': 'threads', 'workers': rng.choice([2, 4, 8]),
             'preempt_lines': rng.choice([0.001, 0.003, 0.01] if tier == 'quick' else [0.002, 0.01, 0.05])},
            {'mode': 'process'}]
    if tier == 'quick':
        specs = rng.sample(pool, n)
    else:
        specs = pool
    for i, s in enumerate(specs): s['salt'] = i
    return specs
