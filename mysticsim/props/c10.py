"""C10 -- termination conditions mean what they say, alone and in combination."""
from .. import solverplan, oracles, gen
from ..env import sub_rng
from . import c05

ID = 'C10'
LEVEL = 'exploration'
RUNS = {'quick': 1200, 'thorough': 90000}
WALL = {'quick': 120, 'thorough': 1500}
RULE = ("a forest of seeded And/Or/When trees (depth <= 3) over all built-in primitives, with windows 0/1/None/=history/>history and "
        "tolerances from a wide grid plus boundary probes built from the differences the run actually produced (exactly equal, one ulp "
        "less), is evaluated by mystic and by TerminationRef at every iteration boundary of C05-style simulated runs (simulated clocks, "
        "interrupts), together with a twin rebuilt from type()/state(); non-trivial = >1 _Step; distinct = trace digests")
ASSUMPTIONS = ["'documented inequality' = docstring summary + formula read together; NCOG's eta guard band, CRT with nPop<2 or inf-inf, "
               "NormalizedCostTarget with an increasing history are don't-cares",
               "GradientNormTolerance is evaluated in the harness-only forest (not installed in the solver): its reference is the forward-difference "
               "gradient of the raw cost at the current best; a norm within 1e-9 of the tolerance is undecided",
               "histories are those that simulated solvers reach, not arbitrary sequences (that would be input generation)"]
REAL = ["mystic.termination (all primitives, And/Or/When, state, type)", "mystic solvers producing the histories"]
STUB = ["cost/constraint/penalty/callback peers", "three simulated clocks", "signal/tty"]
LEVEL_TEXT = ("lock-step comparison of every condition, its info/'self' forms and its rebuilt twin against an executable reference at every "
              "snapshot of seeded simulated runs, incl. clock- and interrupt-dependent conditions")
LEVEL_NOTE = "trusts TerminationRef (a transcription of the docstrings); explores reachable solver states only; sampling, not proof"
valid = solverplan.valid_solver_plan
simplify = solverplan.simplify_solver_plan

def gen_plan(seed, tier):
    plan = solverplan.gen_solver_plan(seed, tier, ID, c05.KNOBS)
    plan = c05.decorate(plan, seed, p_clock=0.7, p_int=0.4)
    rng = sub_rng(seed, 'plan.c10')
    plan['forest'] = [gen.gen_term_tree(rng, plan['solver'], gnt=True) for _ in range(rng.randint(2, 6))]
    # the objective is replaced in mid-run (same dimension): a condition that looks at the objective (GradientNormTolerance)
    # has to look at the one in force
    if rng.random() < 0.3 and not isinstance(plan['cost']['params'].get('parts'), list):
        runs = [i for i, o in enumerate(plan['ops']) if o['op'] in ('step', 'solve')]
        if runs:
            at = rng.choice(runs) + 1
            plan['ops'].insert(at, {'op': 'set', 'what': 'objective',
                                    'arg': gen.gen_cost(rng, plan['dim'], ['quad', 'quad', 'abs', 'rosen', 'maxabs'])})
            plan['ops'].insert(at + 1, {'op': 'step', 'n': rng.randint(1, 3)})
    return plan

def run_plan(plan):
    return solverplan.run_solver_plan(plan, [oracles.TermOracle], budget=400000)
