from .. import solverplan, oracles
ID = 'C01'
LEVEL = 'exploration'
REQUIRED_PROBES = ['c01.best_checked', 'c01.members_checked']
RUNS = {'quick': 1500, 'thorough': 40000}
WALL = {'quick': 120, 'thorough': 1500}
REAL = ["mystic solvers, tools.wrap_*, constraints.and_/boundsconstrain, symbolic bounds (sympy), termination, monitors"]
STUB = ["cost, constraints, penalty, callback (scripted peers)", "clocks", "signal/tty", "file open() proxy"]
valid = solverplan.valid_solver_plan
simplify = solverplan.simplify_solver_plan

RULE = ("seeded op sequences over NM/Powell/DE/DE2 with scripted cost models (plateaus, ties, inf bands, vector-valued + reducer), "
        "boxes, idempotent constraints (pure/in-place/aliasing), penalties, DE strategies; oracle evaluated at every iteration "
        "boundary (callback) and after every op; non-trivial = more than one _Step and more than one cost call; distinct = trace digests")
ASSUMPTIONS = ["constraints deterministic, idempotent, box-compatible (generator + plan validity check)",
               "with an array-valued cost only the reducers max/min/first are generated (mystic computes R(y+p); identical to R(y)+p for those)",
               "member-energy equality is asserted only while objective-defining settings are unchanged since the first iteration",
               "randomising range mode clip=False is not generated here (covered by C02)"]
LEVEL_TEXT = ("seeded search over configurations and API histories; the reported best and every member are recomputed from the "
              "logged real cost calls and the peers' pure twins at every iteration boundary")
LEVEL_NOTE = "trusts the scripted peers' call log; sampling, not proof"
KNOBS = dict(p_bounds=0.45, p_constraint=0.35, p_penalty=0.4, p_vector=0.15, max_ops=6, p_midrun_set=0.25)
ORACLES = [oracles.EvaluatedOptimum]

def gen_plan(seed, tier):
    return solverplan.gen_solver_plan(seed, tier, ID, KNOBS)

def run_plan(plan):
    return solverplan.run_solver_plan(plan, ORACLES)
