from .. import solverplan, oracles
ID = 'C01'
LEVEL = 'exploration'
REQUIRED_PROBES = ['c01.best_checked', 'c01.members_checked']
RUNS = {'quick': 1500, 'thorough': 100000}
WALL = {'quick': 120, 'thorough': 1500}
REAL = ["mystic solvers, tools.wrap_*, constraints.and_/boundsconstrain, symbolic bounds (sympy), termination, monitors"]
STUB = ["cost, constraints, penalty, callback (scripted peers)", "clocks", "signal/tty", "file open() proxy"]
def valid(plan):
    return plan.get('kind') == 'ensemble' or solverplan.valid_solver_plan(plan)
def simplify(plan):
    if plan.get('kind') == 'ensemble':
        for key in ('constraint', 'penalty', 'termination', 'bounds'):
            if plan.get(key):
                p = dict(plan); p[key] = None
                yield p
        if len(plan['modes']) > 1:
            for m in plan['modes']:
                p = dict(plan); p['modes'] = [m]
                yield p
        return
    for p in solverplan.simplify_solver_plan(plan): yield p

RULE = ("seeded op sequences over NM/Powell/DE/DE2 with scripted cost models (plateaus, ties, inf bands, vector-valued + reducer), "
        "boxes, idempotent constraints (pure/in-place/aliasing), penalties, DE strategies; oracle evaluated at every iteration "
        "boundary (callback) and after every op; non-trivial = more than one _Step and more than one cost call; distinct = trace digests")
ASSUMPTIONS = ["constraints deterministic, idempotent, box-compatible (generator + plan validity check)",
               "with an array-valued cost (1 to 3 components) the reducers max/min/first/sum-of-squares/sum-of-abs are generated; the model mirrors mystic: R(y + p) with the penalty added to every component",
               "member-energy equality is asserted only while objective-defining settings are unchanged since the first iteration",
               "randomising range mode clip=False is not generated here (covered by C02)"]
LEVEL_TEXT = ("seeded search over configurations and API histories; the reported best and every member are recomputed from the "
              "logged real cost calls and the peers' pure twins at every iteration boundary")
LEVEL_NOTE = "trusts the scripted peers' call log; sampling, not proof"
KNOBS = dict(p_bounds=0.45, p_constraint=0.35, p_penalty=0.4, p_vector=0.15, max_ops=6, p_midrun_set=0.25,
             reducers=('max', 'min', 'first', 'sumsq', 'sumabs'))
ORACLES = [oracles.EvaluatedOptimum]

def _gen_plan(seed, tier):
    from ..env import sub_rng
    r = sub_rng(seed, 'plan.c01.kind')
    if r.random() < 0.15:
        # the property names ensembles too: Lattice / Buckshot over NM, Powell or DE members, stepped and solved
        from .. import ensembles
        plan = ensembles.gen_ensemble_plan(r, seed, tier, ID)
        plan['kind'] = 'ensemble'
        plan['nested'] = r.choice(['NM', 'Powell', 'DE', 'DE'])
        if plan['nested'] == 'DE': plan['nested_np'] = r.choice([5, 6, 8])
        plan['limits'] = [min(plan['limits'][0] if plan['limits'][0] is not None else 12, 12), plan['limits'][1]]
        plan['map'] = r.choice([None, None, {'mode': 'serial'}, {'mode': 'shuffled'}])
        r3 = sub_rng(seed, 'plan.c01.threads')
        if r3.random() < 0.3:
            # the members run as interleaved tasks (real threads, one at a time, pre-empted at seam crossings and at seeded line
            # events inside mystic): what one member reports must be its own evaluated point, whatever the others do meanwhile
            plan['map'] = {'mode': 'threads', 'preempt_lines': r3.choice([0.0, 0.02, 0.1]), 'workers': r3.choice([2, 3, 8]), 'salt': 1}
        plan['modes'] = r.sample(['steps', 'steps', 'solve_step', 'solve'], 2)
        plan['ops'] = []
        return plan
    r2 = sub_rng(seed, 'plan.c01.stepkw')
    if r2.random() < 0.1:
        # settings that arrive as keywords of the very Step that runs the next iteration (Step(constraints=...), Step(penalty=...)),
        # on a run that is under way and not about to stop: the boundary right after that Step is judged like any other
        from .. import gen
        plan = solverplan.gen_solver_plan(seed, tier, ID, dict(KNOBS, p_term=0.0, p_limits=0.0, p_midrun_set=0.0, p_solve=0.0, max_ops=2,
                                                                small_limits=False, p_vector=0.0))
        dim = plan['dim']
        b = next((o['arg'] for o in plan['ops'] if o['op'] == 'set' and o['what'] == 'bounds' and o.get('arg')), None)
        box = (b['lo'], b['hi']) if b else None
        for _ in range(r2.randint(1, 3)):
            plan['ops'].append({'op': 'step', 'n': r2.randint(1, 4)})
            if r2.random() < 0.5:
                con = gen.gen_constraint(r2, dim, box, forms=solverplan.DEFAULT_KNOBS['constraint_forms'])
                if not gen.compatible(con, box): continue
                plan['ops'].append({'op': 'step', 'n': 1, 'constraint_kw': con})
            else:
                plan['ops'].append({'op': 'step', 'n': 1, 'penalty_kw': gen.gen_penalty(r2, dim)})
            plan['ops'].append({'op': 'step', 'n': r2.randint(1, 3)})
        return plan
    return solverplan.gen_solver_plan(seed, tier, ID, KNOBS)

def _run_plan(plan):
    if plan.get('kind') == 'ensemble': return run_ensemble(plan)
    return solverplan.run_solver_plan(plan, ORACLES)

def run_ensemble(plan):
    """the reported (bestSolution, bestEnergy) of an ensemble, after every ensemble step and at the end, is a point its cost was
    called at, with the energy cost (+ penalty) had there"""
    import hashlib, random as _random, numpy
    from .. import env, engine, ensembles, observe, fs as simfs
    from ..observe import canon, feq
    from ..oracles import reduce_energy, finite
    run = env.Run(plan['seed'], budget=600000)
    env.begin(run)
    run.fs = simfs.SimFS(run); run.fs.plant()
    V = []
    pen = plan.get('penalty')
    def check(snap, upto, when, mode):
        be = snap['bestEnergy']; bs = snap['bestSolution']
        if not (isinstance(be, float) and finite(be)): return
        run.probe('c01.best_checked'); run.probe('c01.ensemble_best_checked')
        hits = [e for e in run.evals[:upto] if feq(tuple(e.x), tuple(bs))]
        tags = {'ensemble': plan['ensemble'], 'nested': plan['nested'], 'mode': mode, 'penalty': bool(pen)}
        if not hits:
            V.append(engine.Violation(ID, 'best_not_evaluated', plan['ensemble'], tags, '%s: ensemble bestSolution %r (energy %r) was never '
                     'passed to the cost function' % (when, bs, be)))
            return False
        want = [canon(reduce_energy(e.y, env.pen_apply(pen, e.x) if pen else 0.0, None)) for e in hits]
        if not any(feq(w, be) for w in want):
            V.append(engine.Violation(ID, 'best_energy_mismatch', plan['ensemble'], tags, '%s: ensemble bestEnergy=%r but cost+penalty at '
                     'bestSolution %r is %r' % (when, be, bs, want[:3])))
            return False
        return True
    steps = 0
    try:
        with engine.patched_world(run):
            for mode in plan['modes']:
                _random.seed(plan['lib_seed']); numpy.random.seed(plan['lib_seed'] % (2 ** 32))
                s, peers = ensembles.build_ensemble(plan, run, plan.get('map'))
                snaps = [] if mode == 'steps' else None
                G = plan['limits'][0]
                run.map_budget = (run.counts['map'] + G + 6) if plan.get('map') else None
                try:
                    fin = ensembles.drive(s, peers, plan, run, mode, G + 4, snaps)
                except env.SimHang:
                    break
                except (ValueError, TypeError) as e:
                    run.probe('c01.ensemble_raised.%s' % type(e).__name__); continue
                finally:
                    run.map_budget = None
                ok = True
                for i, sn in enumerate(snaps or []):
                    steps += 1
                    if check(sn, sn['_nevals'], 'after ensemble Step %d' % (i + 1), mode) is False: ok = False; break
                if ok: check(fin, len(run.evals), 'at the end of the %s run' % mode, mode)
                run.probe('c01.members_checked', len(s._allSolvers))
    finally:
        run.fs.cleanup()
        env.end()
    tr = repr(canon(run.trace)) + repr(len(run.evals)) + repr(steps)
    return {'violations': V, 'digest': hashlib.sha1(tr.encode()).hexdigest(), 'probes': run.probes, 'fired': run.fired, 'sim_s': 0.0,
            'nontrivial': len(run.evals) > 2, 'stats': {'cost_calls': len(run.evals), 'steps': steps, 'ops': 0, 'seam_crossings': run.ncross}}


# ---- the one-liner interfaces named by the property (fmin, fmin_powell, diffev, diffev2, lattice, buckshot)
from .. import wrappers as _wr
from ..env import sub_rng as _sub_rng
P_WRAPPER = 0.1

def gen_plan(seed, tier):
    if _sub_rng(seed, 'plan.kind.wrapper').random() < P_WRAPPER:
        return _wr.gen_wrapper_plan(seed, tier, ID, interrupts=(ID == 'C05'))
    return _gen_plan(seed, tier)

def run_plan(plan):
    if plan.get('kind') == 'wrapper': return _wr.run_wrapper_plan(plan, (ID,))
    return _run_plan(plan)

_valid0 = valid
_simplify0 = simplify
def valid(plan):
    if plan.get('kind') == 'wrapper': return True
    return True if _valid0 is None else _valid0(plan)
def simplify(plan):
    if plan.get('kind') == 'wrapper': return _wr.simplify_wrapper_plan(plan)
    return _simplify0(plan)
