"""C17 -- combinators claim success only at a fixed point; couplers compose as documented.

The schedule dimension here is the combinators' cycle-breaking randomness: random.randint /
random.random are taken over by the simulator and scripted from the 'fault' stream (every value
they can legally return, incl. 0.0 and the interval ends), and the members are scripted
idempotent constraints in compatible, conflicting and cyclic combinations.  onexit / onfail
are logging peers.  Liveness: the call must return within a budget of member calls.
"""
import hashlib, random as _random
import numpy
from .. import env, engine, observe, gen
from ..env import sub_rng, SimConstraint, con_apply
from ..observe import canon

ID = 'C17'
LEVEL = 'exploration'
RUNS = {'quick': 6000, 'thorough': 600000}
WALL = {'quick': 120, 'thorough': 1500}
RULE = ("seeded combinator calls: and_/or_/not_ over 1-4 scripted idempotent members (pins, clamps, rounding, ties, sort, conditional "
        "jumps; pure/in-place/aliasing forms; compatible, conflicting, cyclic), inputs as lists and arrays, maxiter in 1..100, the same "
        "combinator object called repeatedly, with random.randint/random.random scripted (seeded stream + legal extremes); plus the "
        "function couplers and penalty combinators on scripted functions; non-trivial = the combinator had to iterate beyond its first "
        "pass or took the failure path; distinct = trace digests")
ASSUMPTIONS = ["members are constraint solvers in mystic's sense: deterministic and idempotent (a non-idempotent member makes and_ report "
               "success at a non-fixed point on its first pass by construction); the one exception is or_, which re-applies a member to its "
               "own result before accepting it: there a contraction (x -> t + (x-t)/2, not idempotent, exact fixed point after ~55 "
               "applications) is also used as a member",
               "inner/outer/additive and the penalty and_/or_/not_ are deterministic one-liners with no seam: they are asserted here on "
               "scripted functions but the simulator adds nothing to them"]
REAL = ["mystic.constraints.and_/or_/not_", "mystic.coupler (inner, outer, additive, and_, or_, not_)", "mystic.penalty"]
STUB = ["member constraints, onexit/onfail (scripted peers)", "random.randint / random.random (scripted draw source)"]
LEVEL_TEXT = ("seeded search over member combinations, inputs, iteration caps and the cycle-breaking draw sequences (scripted, incl. "
              "legal extremes); success claims are tested against the members' pure twins; bounded-liveness budget on member calls")
LEVEL_NOTE = "trusts the members' pure twins; sampling over draw sequences, not enumeration"
OPS_KEY = 'calls'

def gen_member(rng, dim, style):
    c = gen.gen_constraint(rng, dim, None)
    if style == 'conflict' and rng.random() < 0.6:
        # clamps with possibly disjoint ranges, pins at different values: no common fixed point
        i = rng.randrange(dim)
        if rng.random() < 0.5:
            a = gen.r2(rng, -3, 3); w = rng.choice([0.0, 0.5, 1.0])
            lo = [-float('inf')] * dim; hi = [float('inf')] * dim
            lo[i] = a; hi[i] = a + w
            c = {'family': 'clamp', 'form': rng.choice(['pure', 'inplace', 'alias']), 'params': {'lo': lo, 'hi': hi}}
        else:
            c = {'family': 'pin', 'form': rng.choice(['pure', 'inplace', 'alias']), 'params': {'at': [[i, gen.r2(rng, -3, 3)]]}}
    elif style == 'cyclic' and rng.random() < 0.6:
        i = rng.randrange(dim)
        t = gen.r2(rng, -1, 1)
        # x[i] > t -> jump to 'to' (> t): combined with a clamp below t this cycles
        c = {'family': 'push_if', 'form': rng.choice(['pure', 'inplace']), 'params': {'i': i, 't': t, 'to': t + rng.choice([0.5, 2.0, 10.0])}}
    return c

def gen_plan(seed, tier):
    rng = sub_rng(seed, 'plan')
    dim = rng.randint(1, 4)
    calls = []
    for _ in range(rng.randint(1, 4)):
        which = rng.choice(['and_', 'and_', 'and_', 'or_', 'or_', 'not_'])
        style = rng.choice(['compatible', 'conflict', 'conflict', 'cyclic'])
        n = 1 if which == 'not_' else rng.choice([1, 2, 2, 3, 4])
        members = [gen_member(rng, dim, style) for _ in range(n)]
        if which == 'not_' and rng.random() < 0.3:
            # a member that accepts every vector it can be evaluated at, and raises ZeroDivisionError on a plane that the
            # combinator's randomiser hits when a coordinate is -1, 0 or 1: not_ may never claim that it changes anything
            members[0] = {'family': 'zdiv', 'form': 'pure', 'params': {'i': rng.randrange(dim)}}
        if which == 'or_' and rng.random() < 0.25:
            # or_ accepts a vector only when re-applying a member to its own result changes nothing: a slowly converging
            # member (a contraction) must be iterated to its exact fixed point, or given up on -- never accepted early
            j = rng.randrange(n)
            members[j] = {'family': 'relax', 'form': rng.choice(['pure', 'inplace']),
                          'params': {'t': rng.choice([0.0, 1.0, -2.5, gen.r2(rng, -3, 3)]),
                                     'idx': sorted(rng.sample(range(dim), rng.randint(1, dim)))}}
        if style == 'cyclic' and n >= 2:
            # a clamp that sends the jumper's target back below its threshold
            j = members[0]
            if j['family'] == 'push_if':
                i = j['params']['i']; t = j['params']['t']
                lo = [-float('inf')] * dim; hi = [float('inf')] * dim
                hi[i] = t + rng.choice([0.25, 0.0, 1.0]); lo[i] = hi[i] - 2.0
                members[1] = {'family': 'clamp', 'form': 'pure', 'params': {'lo': lo, 'hi': hi}}
        xs = []
        for _ in range(rng.randint(1, 4)):     # the same combinator object is called several times
            xs.append({'x': [rng.choice([0.0, 1.0, -1.0, gen.r2(rng, -5, 5), gen.r2(rng, -5, 5), 0.5]) for _ in range(dim)],
                       'as': rng.choice(['list', 'list', 'array'])})
        if members[0]['family'] == 'zdiv':
            for inp in xs:
                inp['x'] = [rng.choice([0.0, 0.0, 1.0, -1.0, 3.0]) for _ in range(dim)]
        calls.append({'which': which, 'members': members, 'maxiter': rng.choice([1, 2, 3, 5, 10, 100, None]),
                      'inputs': xs, 'hooks': rng.choice(['both', 'both', 'exit', 'fail', 'none'])})
    # the scripted draw source: a seeded stream with legal extremes mixed in
    return {'property': ID, 'seed': seed, 'tier': tier, 'dim': dim, 'calls': calls,
            'draws': {'p_extreme': rng.choice([0.0, 0.1, 0.4]), 'seed': rng.randrange(1 << 30)},
            'couplers': rng.random() < 0.3}


class Draws(object):
    """scripted random.randint / random.random"""
    def __init__(self, spec, run):
        self.rng = sub_rng(spec['seed'], 'fault')
        self.p = spec['p_extreme']; self.run = run
        self.n = 0
    def randint(self, a, b):
        self.n += 1; self.run.seam('rng')
        if self.rng.random() < self.p: v = self.rng.choice([a, b])
        else: v = self.rng.randint(a, b)
        self.run.trace.append(('randint', a, b, v)); return v
    def random(self):
        self.n += 1; self.run.seam('rng')
        if self.rng.random() < self.p: v = self.rng.choice([0.0, 0.0, 0.5, 1.0 - 2.0 ** -53])
        else: v = self.rng.random()
        self.run.trace.append(('random', v)); return v


def run_plan(plan):
    run = env.Run(plan['seed'], budget=500000)
    env.begin(run)
    V = []
    stats = {'calls': 0, 'success': 0, 'failure': 0, 'iterated': 0, 'draws': 0, 'randomized_calls': 0, 'coupler_checks': 0}
    def violate(kind, detail, **tags):
        V.append(engine.Violation(ID, kind, tags.pop('where', 'combinator'), tags, detail))
    saved = (_random.randint, _random.random)
    d = Draws(plan['draws'], run)
    _random.randint = d.randint; _random.random = d.random
    try:
        with engine.patched_world(run):
            _run(plan, run, violate, stats, d)
            if plan.get('couplers'): couplers(plan, run, violate, stats)
    except env.SimHang as e:
        violate('combinator_did_not_return', str(e))
    finally:
        _random.randint, _random.random = saved
        env.end()
    stats['draws'] = d.n
    tr = repr(canon(run.trace)) + repr(sorted(stats.items()))
    return {'violations': V, 'digest': hashlib.sha1(tr.encode()).hexdigest(), 'probes': run.probes, 'fired': run.fired,
            'sim_s': 0.0, 'nontrivial': stats['iterated'] > 0 or stats['failure'] > 0,
            'stats': dict(stats, seam_crossings=run.ncross)}


def _run(plan, run, violate, stats, d):
    import mystic.constraints as mc
    dim = plan['dim']
    for ci, call in enumerate(plan['calls']):
        which = call['which']
        members = [SimConstraint(m) for m in call['members']]
        fired = []
        def onexit(x, fired=fired): fired.append(('exit', tuple(float(v) for v in x))); return x
        def onfail(x, fired=fired): fired.append(('fail', tuple(float(v) for v in x))); return x
        kw = {}
        if call['maxiter'] is not None: kw['maxiter'] = call['maxiter']
        if call['hooks'] in ('both', 'exit'): kw['onexit'] = onexit
        if call['hooks'] in ('both', 'fail'): kw['onfail'] = onfail
        comb = getattr(mc, which)(*members, **kw) if which != 'not_' else mc.not_(members[0], **kw)
        n = len(members)
        maxiter = (call['maxiter'] if call['maxiter'] is not None else 100)
        for inp in call['inputs']:
            x = list(inp['x']) if inp['as'] == 'list' else numpy.array(inp['x'], dtype=float)
            x_before = tuple(inp['x'])
            del fired[:]
            c0 = run.con_calls; d0 = d.n
            try:
                out = comb(x)
            except env.SimHang:
                raise
            except Exception as e:
                violate('combinator_raised', 'call %d %s(%s) on %r raised %s: %s' % (ci, which, [m['family'] for m in call['members']],
                        inp['x'], type(e).__name__, str(e)[:160]), which=which)
                continue
            stats['calls'] += 1
            ncalls = run.con_calls - c0
            if ncalls > n: stats['iterated'] += 1
            if d.n > d0: stats['randomized_calls'] += 1
            res = tuple(float(v) for v in out)
            tags = {'which': which, 'n': n, 'style': [m['family'] for m in call['members']], 'as': inp['as']}
            # exactly one of the two paths, when both hooks are installed
            if call['hooks'] == 'both' and len(fired) != 1:
                violate('neither_or_both_paths_fired', 'call %d %s on %r: hooks fired %r' % (ci, which, inp['x'], fired), **tags)
                continue
            success = None
            if call['hooks'] == 'both': success = fired[0][0] == 'exit'
            elif call['hooks'] == 'exit': success = bool(fired)
            elif call['hooks'] == 'fail': success = not fired
            if fired and fired[-1][1] != res:
                violate('neither_or_both_paths_fired', 'call %d %s: the hook got %r but %r was returned' % (ci, which, fired[-1][1], res), **tags)
            def _fixed(m):
                try: return tuple(con_apply(m, list(res))) == res
                except ZeroDivisionError: return True      # cannot be evaluated there: certainly not 'changed by the member'
            fixed = [_fixed(m) for m in call['members']]
            if success is True:
                stats['success'] += 1
                ok = all(fixed) if which == 'and_' else (any(fixed) if which == 'or_' else not fixed[0])
                if not ok:
                    violate('success_at_non_fixed_point@%s' % which, 'call %d: %s(%s) reported success on input %r with %r, '
                            'but members leave it unchanged: %r (draws used: %d)' % (ci, which, [m['family'] + '/' + m.get('form', '') for m in call['members']],
                            inp['x'], res, fixed, d.n - d0), **tags)
            elif success is False:
                stats['failure'] += 1
            # bounded work
            cap = maxiter * n + n if which != 'not_' else maxiter + 1
            if ncalls > cap:
                violate('combinator_did_not_return', 'call %d %s made %d member calls, cap is %d' % (ci, which, ncalls, cap), **tags)
            # draws only after a detected repeat: a first-pass success draws nothing
            if ncalls <= n and which != 'not_' and d.n > d0:
                violate('neither_or_both_paths_fired', 'call %d %s consumed %d random draws although it finished in its first pass'
                        % (ci, which, d.n - d0), **tags)


def couplers(plan, run, violate, stats):
    """function couplers and penalty combinators (no seam: plain assertions on scripted functions)"""
    import mystic.coupler as cp
    import mystic.penalty as mp
    rng = sub_rng(plan['seed'], 'couplers')
    dim = plan['dim']
    spec = gen.gen_constraint(rng, dim, None, forms=('pure',))
    c = lambda x: con_apply(spec, list(x))
    quad = gen.gen_quad(rng, dim)
    f = lambda x: env._quad(quad, x)
    pen = gen.gen_penalty(rng, dim)
    p = lambda x: env.pen_apply(pen, tuple(x))
    g = lambda x: [2.0 * v + 1.0 for v in x]
    for _ in range(5):
        x = [gen.r2(rng, -4, 4) for _ in range(dim)]
        stats['coupler_checks'] += 1
        a = cp.inner(c)(f)(list(x)); b = f(c(list(x)))
        if a != b: violate('coupler_composition', 'inner(c)(f)(x)=%r but f(c(x))=%r at %r' % (a, b, x), where='coupler')
        a = cp.outer(c)(g)(list(x)); b = c(g(list(x)))
        if list(a) != list(b): violate('coupler_composition', 'outer(c)(g)(x)=%r but c(g(x))=%r at %r' % (a, b, x), where='coupler')
        a = cp.additive(p)(f)(list(x)); b = f(x) + p(x)
        if a != b: violate('coupler_composition', 'additive(p)(f)(x)=%r but f(x)+p(x)=%r at %r' % (a, b, x), where='coupler')
        # penalty combinators over linear inequality conditions
        w1 = [rng.choice([-1.0, 0.0, 1.0, 2.0]) for _ in range(dim)]; b1 = gen.r2(rng, -2, 2)
        w2 = [rng.choice([-1.0, 0.0, 1.0, 2.0]) for _ in range(dim)]; b2 = gen.r2(rng, -2, 2)
        c1 = lambda x, w=w1, b_=b1: sum(wi * xi for wi, xi in zip(w, x)) - b_
        c2 = lambda x, w=w2, b_=b2: sum(wi * xi for wi, xi in zip(w, x)) - b_
        p1 = mp.quadratic_inequality(c1)(lambda x: 0.0); p2 = mp.quadratic_inequality(c2)(lambda x: 0.0)
        z1, z2 = p1(x) == 0, p2(x) == 0
        pa = cp.and_(p1, p2)(x); po = cp.or_(p1, p2)(x); pn = cp.not_(p1)(x)
        if (pa == 0) != (z1 and z2):
            violate('coupler_composition', 'penalty and_ is %r where members are %r, %r at %r' % (pa, p1(x), p2(x), x), where='coupler')
        if (po == 0) != (z1 or z2):
            violate('coupler_composition', 'penalty or_ is %r where members are %r, %r at %r' % (po, p1(x), p2(x), x), where='coupler')
        if (pn > 0) != (c1(x) < 0):
            violate('coupler_composition', 'penalty not_ is %r where the condition is %r at %r' % (pn, c1(x), x), where='coupler')
    # the same combined penalty evaluated at several points AT THE SAME TIME (a map that runs its items in threads: real threads, one
    # running at a time, pre-empted at seeded line events inside mystic): every evaluation still is the combinator's definition
    from .. import maps
    r3 = sub_rng(plan['seed'], 'couplers.threads')
    conds = []
    for _ in range(3):
        w_ = [r3.choice([-1.0, 0.0, 1.0, 2.0]) for _ in range(dim)]; b_ = gen.r2(r3, -2, 2)
        conds.append(lambda x, w=w_, b=b_: sum(wi * xi for wi, xi in zip(w, x)) - b)
    pens = [mp.quadratic_inequality(c_)(lambda x: 0.0) for c_ in conds]
    combos = {'or_': cp.or_(*pens), 'and_': cp.and_(*pens), 'not_': cp.not_(pens[0])}
    pts = [[gen.r2(r3, -4, 4) for _ in range(dim)] for _ in range(r3.randint(2, 6))]
    for name in ('or_', 'and_', 'not_'):
        F = combos[name]
        serial = [F(list(x)) for x in pts]
        m_ = maps.SimMap({'mode': 'threads', 'preempt_lines': r3.choice([0.1, 0.3, 0.6]), 'salt': 'c17' + name})
        conc = m_(F, [list(x) for x in pts])
        stats['coupler_checks'] += len(pts); stats['concurrent_evaluations'] = stats.get('concurrent_evaluations', 0) + len(pts)
        for x, a, b in zip(pts, serial, conc):
            z = [p_(x) == 0 for p_ in pens]
            want0 = any(z) if name == 'or_' else (all(z) if name == 'and_' else None)
            if a != b or (want0 is not None and (b == 0) != want0):
                violate('coupler_composition', 'penalty %s evaluated at %d points concurrently (threads map, seeded pre-emption): at %r it gives %r, '
                        'evaluated alone %r; members are zero there: %r' % (name, len(pts), x, b, a, z), where='coupler', concurrent=True)
                break
    # one coupler object used for several functions (bind = inner(c); F = bind(f); G = bind(g)): every coupled function keeps meaning
    # its own composition whatever was coupled before or after it -- checked in a seeded interleaving of couplings and calls
    r2 = sub_rng(plan['seed'], 'couplers.reuse')
    quad2 = gen.gen_quad(r2, dim)
    f2 = lambda x: env._quad(quad2, x) + 1.0
    g2 = lambda x: [v - 3.0 for v in x]
    binds = {'inner': cp.inner(c), 'outer': cp.outer(c), 'additive': cp.additive(p)}
    want = {'inner': lambda fn, x: fn(c(list(x))), 'outer': lambda fn, x: c(fn(list(x))), 'additive': lambda fn, x: fn(x) + p(x)}
    fns = {'inner': [f, f2], 'outer': [g, g2], 'additive': [f, f2]}
    coupled = []
    for _ in range(r2.randint(3, 8)):
        if not coupled or r2.random() < 0.4:
            k = r2.choice(['inner', 'outer', 'additive']); j = r2.randrange(2)
            coupled.append((k, j, binds[k](fns[k][j])))
        k, j, F = r2.choice(coupled)
        x = [gen.r2(r2, -4, 4) for _ in range(dim)]
        stats['coupler_checks'] += 1
        a = F(list(x)); b = want[k](fns[k][j], x)
        if (list(a) != list(b)) if k == 'outer' else (a != b):
            violate('coupler_composition', '%s coupler applied to %d function(s) so far: the coupled function #%d gives %r, its definition %r at %r'
                    % (k, len([1 for q in coupled if q[0] == k]), j, a, b, x), where='coupler')


def simplify(plan):
    for i, call in enumerate(plan['calls']):
        if len(call['inputs']) > 1:
            for j in range(len(call['inputs'])):
                c2 = dict(call); c2['inputs'] = call['inputs'][:j] + call['inputs'][j + 1:]
                p = dict(plan); p['calls'] = plan['calls'][:i] + [c2] + plan['calls'][i + 1:]
                yield p
        if len(call['members']) > 1 and call['which'] != 'not_':
            for j in range(len(call['members'])):
                c2 = dict(call); c2['members'] = call['members'][:j] + call['members'][j + 1:]
                p = dict(plan); p['calls'] = plan['calls'][:i] + [c2] + plan['calls'][i + 1:]
                yield p
    if plan.get('couplers'):
        p = dict(plan); p['couplers'] = False
        yield p
    if plan['draws']['p_extreme'] > 0:
        p = dict(plan); p['draws'] = dict(plan['draws'], p_extreme=0.0)
        yield p
