"""C20 -- monitors and log files give back exactly what was recorded.

Workload: op sequences on a few monitor slots (plain / verbose / logging; k scaling) --
call with (x, y, id) of varied shapes and special values, slicing, +, extend, prepend, the
munge writers -- while a *reader task* (logfile_reader / read_history) is switched in at
scheduler-chosen file seam crossings of the writer (between open, write and close), and with
process death injected at any file op (buffered bytes lost, or a torn prefix written).
Oracle: MonitorRef (a plain list of records) + the prefix property for what is on disk.
"""
import hashlib, os, math
import numpy
from .. import env, engine, observe, fs as simfs
from ..env import sub_rng
from ..observe import canon, feq

ID = 'C20'
LEVEL = 'exploration'
RUNS = {'quick': 3000, 'thorough': 240000}
WALL = {'quick': 120, 'thorough': 1500}
RULE = ("seeded op sequences over up to 4 monitor slots (Monitor/VerboseMonitor/LoggingMonitor, k in {None,1,-1,2,0.5,2.0}): call "
        "(lists, tuples, numpy arrays/scalars, vector costs, ids, inf/nan/-0.0/tiny/huge, caller re-using and mutating its own list), "
        "slice, +, extend, prepend, write_raw/support/converge + matching reader incl. same-path rewrite; a reader task is switched "
        "in at seeded fs.open/write/close crossings of the LoggingMonitor; crash (lost/torn buffer), ENOSPC/EIO/short write injected "
        "at seeded file ops; non-trivial = >= 3 records and >= 1 file or concatenation op; distinct = trace digests")
ASSUMPTIONS = ["k values are powers of two or -1 so that scaling by k and back is exact in floating point",
               "float32 values are not generated (their decimal text does not round-trip to the same double)",
               "scalar (non-sequence) parameters are not generated: the log format brackets them by design",
               "after an injected write error the file may lack the last record (the error reached the caller) but never holds a mangled or reordered one"]
REAL = ["mystic.monitors (Monitor, VerboseMonitor, LoggingMonitor), mystic.munge readers/writers, the Python import system (read_raw_file)",
        "real files in a scratch directory"]
STUB = ["open() proxy: buffering until flush/close, crash/torn/ENOSPC/EIO/short-write injection, mtimes from the simulated clock",
        "reader task scheduling (switched in at the writer's file seam crossings)", "process death"]
LEVEL_TEXT = ("seeded search over monitor operation histories, writer/reader interleavings at file-operation granularity and crash/IO-fault "
              "points, checked operation by operation against a list model and the durable-prefix rule")
LEVEL_NOTE = "trusts MonitorRef (a Python list) and exact float text round trip via repr; sampling, not proof"
OPS_KEY = 'ops'
inf = float('inf'); nan = float('nan')

SPECIAL = [inf, -inf, nan, 0.0, -0.0, 1e-300, 2.0 ** -1000, 1e300, -1e300, -3.5, 1.0, 2.0 ** -40, 123456789.125]
KS = [None, None, 1, -1, 2, 0.5, 2.0, -1.0, 4]

def gen_val(rng):
    c = rng.random()
    if c < 0.3: return rng.choice(SPECIAL)
    if c < 0.5: return float(rng.randint(-5, 5))
    return round(rng.uniform(-100, 100), rng.choice([0, 2, 6, 12]))

def gen_plan(seed, tier):
    rng = sub_rng(seed, 'plan')
    dim = rng.randint(1, 4)
    nslots = rng.randint(1, 4)
    ops = []
    vec = rng.random() < 0.25          # vector-valued costs in this run
    for s in range(nslots):
        kind = rng.choice(['Monitor', 'Monitor', 'Logging', 'Logging', 'Verbose'])
        op = {'op': 'new', 'slot': s, 'kind': kind, 'k': rng.choice(KS)}
        if kind == 'Logging':
            op['interval'] = rng.choice([1, 1, 1, 2, 3]); op['file'] = 'log%d.txt' % s
            op['new_file'] = rng.random() < 0.5       # LoggingMonitor(new=True): start the log file afresh
        ops.append(op)
    nops = rng.randint(3, 25 if tier == 'quick' else 40)
    live = list(range(nslots)); nxt = nslots
    nfile = 0
    for _ in range(nops):
        c = rng.random()
        s = rng.choice(live)
        if c < 0.55:
            x = [gen_val(rng) for _ in range(dim)]
            x = [v if v == v and abs(v) != inf else float(rng.randint(-3, 3)) for v in x] if rng.random() < 0.7 else x
            y = [gen_val(rng) for _ in range(rng.choice([2, 3]))] if vec else gen_val(rng)
            ops.append({'op': 'call', 'slot': s, 'x': x, 'y': y, 'id': rng.choice([None, None, 0, 3, 1, 0]),
                        'xt': rng.choice(['list', 'list', 'array', 'tuple', 'npscalars', 'reuse']),
                        'yt': rng.choice(['py', 'py', 'np', 'int'] if not vec else ['list', 'array', 'tuple', 'list'])})
        elif c < 0.63:
            ops.append({'op': 'slice', 'slot': s, 'to': nxt, 'a': rng.choice([None, 0, 1, -2]), 'b': rng.choice([None, 2, -1, 5]),
                        'step': rng.choice([None, None, 2])}); live.append(nxt); nxt += 1
        elif c < 0.70:
            ops.append({'op': 'add', 'a': s, 'b': rng.choice(live), 'to': nxt}); live.append(nxt); nxt += 1
        elif c < 0.76:
            ops.append({'op': 'extend', 'a': s, 'b': rng.choice(live)})
        elif c < 0.82:
            ops.append({'op': 'prepend', 'a': s, 'b': rng.choice(live)})
        elif c < 0.90:
            ops.append({'op': 'readlog', 'slot': s, 'how': rng.choice(['logfile_reader', 'read_history'])})
        else:
            f = 'out%d.py' % (nfile if rng.random() < 0.6 else max(0, nfile - 1)); nfile += 1
            ops.append({'op': 'write', 'slot': s, 'fmt': rng.choice(['raw', 'raw', 'support', 'converge']), 'file': f,
                        'dt': rng.choice([0.0, 0.0, 0.4, 1.0, 5.0])})
        if len(live) > 6: live = live[-6:]
    # scheduler: reader switched in at seeded file seam crossings; faults at seeded file ops
    faults = []
    if rng.random() < 0.6:
        for _ in range(rng.randint(1, 4)):
            faults.append({'at': '%s#%d' % (rng.choice(['fs.open', 'fs.write', 'fs.close']), rng.randint(1, 40)), 'kind': 'reader'})
    if rng.random() < 0.35:
        k = rng.choice(['crash', 'crash', 'enospc', 'eio', 'short_write'])
        f = {'at': '%s#%d' % (rng.choice(['fs.write', 'fs.write', 'fs.close', 'fs.open']) if k == 'crash' else 'fs.write', rng.randint(1, 40)), 'kind': k}
        if k == 'crash': f['torn'] = rng.choice([None, None, 0.0, 0.4, 0.95])
        if k == 'short_write': f['keep'] = rng.choice([0.0, 0.3, 0.8])
        faults.append(f)
    seen = set(); out = []
    for f in faults:
        if f['at'] not in seen: seen.add(f['at']); out.append(f)
    # selections by a list of positions or by a boolean mask (one flag per record; python list or numpy array): m[sel] holds
    # exactly the selected records, in the order given (numpy's indexing rules, which Monitor.__getitem__ documents by example)
    if not vec:
        r2 = sub_rng(seed, 'plan.c20.select')
        ops2 = []
        for o in ops:
            ops2.append(o)
            if o['op'] == 'call' and r2.random() < 0.1:
                how = r2.choice(['idx', 'idx', 'mask', 'mask', 'npmask', 'npidx'])
                ops2.append({'op': 'select', 'slot': o['slot'], 'to': nxt, 'how': how,
                             'sel': [r2.randrange(64) for _ in range(r2.randint(1, 5))] if 'idx' in how else [r2.random() < 0.5 for _ in range(24)]})
                nxt += 1
        ops = ops2
    return {'property': ID, 'seed': seed, 'tier': tier, 'dim': dim, 'ops': ops, 'faults': out}


class Rec(object):
    __slots__ = ('x', 'y', 'id')
    def __init__(self, x, y, id): self.x = x; self.y = y; self.id = id

class Ref(object):
    """MonitorRef: a list of records, the scale factor, and what kind of monitor it stands for"""
    def __init__(self, kind, k, file=None, interval=1):
        self.recs = []; self.kind = kind; self.k = k; self.file = file; self.interval = interval
        self.logged = []       # (index, Rec) that the LoggingMonitor should have appended to its file, in order
        self.acked = 0         # how many of those were acknowledged (the call returned)

def mk_x(x, how, reuse_buf):
    if how == 'array': return numpy.array(x, dtype=float)
    if how == 'tuple': return tuple(x)
    if how == 'npscalars': return [numpy.float64(v) for v in x]
    if how == 'reuse':
        reuse_buf[:] = x          # the caller re-uses (and later mutates) its own list object
        return reuse_buf
    return list(x)

def mk_y(y, how):
    if isinstance(y, list):
        if how == 'array': return numpy.array(y, dtype=float)
        if how == 'tuple': return tuple(y)
        return list(y)
    if how == 'np': return numpy.float64(y)
    if how == 'int' and y == y and abs(y) != inf and float(y).is_integer() and abs(y) < 1e15: return int(y)
    return y

def cy(v):
    """canonical cost value for comparison (tuples for vectors, floats for scalars)"""
    c = canon(v)
    if isinstance(c, int) and not isinstance(c, bool): return float(c)
    if isinstance(c, tuple): return tuple(float(i) if isinstance(i, int) and not isinstance(i, bool) else i for i in c)
    return c

def cx(v):
    c = canon(v)
    if isinstance(c, tuple): return tuple(float(i) if isinstance(i, (int, float)) and not isinstance(i, bool) else i for i in c)
    return c


def run_plan(plan):
    run = env.Run(plan['seed'], budget=200000)
    env.begin(run)
    run.fs = simfs.SimFS(run)
    run.fs.plant()
    V = []
    stats = {'records': 0, 'reader_switches': 0, 'reader_parsed': 0, 'file_roundtrips': 0, 'concats': 0, 'crashes': 0,
             'io_errors_loud': 0, 'stale_rereads': 0}
    def violate(kind, detail, **tags):
        tags['after_short_write'] = run.fired.get('short_write', 0) > 0
        V.append(engine.Violation(ID, kind, 'monitors', tags, detail))
    try:
        with engine.patched_world(run):
            _run(plan, run, violate, stats)
    finally:
        run.fs.cleanup()
        env.end()
        import sys
        for m in [m for m in sys.modules if m.startswith('out') and m[3:].isdigit()]:
            pass      # (left to mystic: whether a stale module is re-used is part of what is checked)
    tr = repr(canon(run.trace)) + repr(sorted(stats.items()))
    nontrivial = stats['records'] >= 3 and (stats['file_roundtrips'] + stats['concats'] + stats['reader_parsed']) >= 1
    return {'violations': V, 'digest': hashlib.sha1(tr.encode()).hexdigest(), 'probes': run.probes, 'fired': run.fired,
            'sim_s': run.clock.covered, 'nontrivial': nontrivial, 'stats': dict(stats, seam_crossings=run.ncross)}


def _run(plan, run, violate, stats):
    import mystic.monitors as mm
    import mystic.munge as mg
    for f in plan.get('faults', []):
        seam, n = f['at'].split('#')
        run.faults[(seam, int(n))] = f
    fs = run.fs
    mons = {}; refs = {}
    reuse_bufs = {}
    crashed = [False]

    def check_slot(s, when):
        m = mons[s]; r = refs[s]
        n = len(r.recs)
        if len(m) != n:
            violate('monitor_length', '%s: slot %d has len %d, %d records were recorded' % (when, s, len(m), n), mon=r.kind); return
        xs = cx(m.x); ys = cy(m.y); ids = canon(m.id)
        for i, rec in enumerate(r.recs):
            if not feq(xs[i], cx(rec.x)) or not feq(ys[i], cy(rec.y)) or ids[i] != rec.id:
                violate('monitor_record_changed', '%s: slot %d (%s, k=%r) record %d reads back x=%r y=%r id=%r, recorded x=%r y=%r id=%r'
                        % (when, s, r.kind, r.k, i, xs[i], ys[i], ids[i], cx(rec.x), cy(rec.y), rec.id), mon=r.kind, k=repr(r.k))
                return
        # the i-th record through indexing
        if n:
            i = n // 2
            try:
                xi, yi = m[i]
                if not feq(cx(xi), cx(r.recs[i].x)) or not feq(cy(yi), cy(r.recs[i].y)):
                    violate('monitor_record_changed', '%s: slot %d m[%d] -> %r/%r, recorded %r/%r' % (when, s, i, xi, yi, r.recs[i].x, r.recs[i].y), mon=r.kind)
            except Exception as e:
                violate('monitor_record_changed', '%s: slot %d m[%d] raised %r' % (when, s, i, e), mon=r.kind)

    def parse_log(r, how):
        path = fs.path(r.file)
        if not os.path.exists(path): return None
        if how == 'logfile_reader':
            step, param, cost = mg.logfile_reader(path, iter=True)
        else:
            step, param, cost = mg.read_history(path, iter=True)
        return step, param, cost

    def check_log(s, how, when, after_crash=False):
        """what is on disk parses to exactly the first j records that should have been logged"""
        r = refs[s]
        if r.kind != 'Logging': return
        try:
            got = parse_log(r, how)
        except Exception as e:
            if run.dead: raise env.SimCrash('process died inside the reader')   # (mystic's bare excepts swallow BaseException)
            violate('log_not_prefix_of_records', '%s: %s(%s) raised %s: %s' % (when, how, r.file, type(e).__name__, str(e)[:200]), how=how)
            return
        if got is None: return
        step, param, cost = got
        stats['reader_parsed'] += 1
        j = len(cost)
        want = r.logged
        lo = r.acked if not after_crash else 0
        # every acknowledged record must be there (durable at close); at most the in-flight one more
        if j > len(want) or (not after_crash and j < r.acked and not r.lossy):
            violate('log_not_prefix_of_records', '%s: %s parsed %d records; %d were acknowledged, %d attempted'
                    % (when, how, j, r.acked, len(want)), how=how); return
        if how == 'read_history':
            # read_history hands parameters back in 'support' (per-parameter) layout: compare as a whole trajectory
            if not same_trajectory(cx(param), [cx(rec.x) for (_, rec) in want[:j]]) or \
               not feq(flat(cy(cost)), flat(tuple(cy(rec.y) for (_, rec) in want[:j]))):
                violate('log_value_changed', '%s: read_history gives params=%r cost=%r, recorded %r' % (when, param, cost,
                        [(rec.x, rec.y) for (_, rec) in want[:j]]), how=how)
            return
        for i in range(j):
            idx, rec = want[i]
            if not feq(cx(param[i]), cx(rec.x)) or not feq(cy(cost[i]), cy(rec.y)):
                violate('log_value_changed', '%s: %s record %d reads x=%r y=%r, recorded x=%r y=%r'
                        % (when, how, i, param[i], cost[i], rec.x, rec.y), how=how); return
            if how == 'logfile_reader':
                st = step[i]
                wst = (idx,) if rec.id is None else (idx, rec.id)
                if tuple(st) != wst:
                    violate('log_value_changed', '%s: record %d has iteration %r, recorded %r' % (when, i, st, wst), how=how); return

    def reader_task(f, kind):
        """the reader task, switched in at one of the writer's file seam crossings"""
        stats['reader_switches'] += 1
        run.observing = True
        saved = run.faults; run.faults = {}
        try:
            for s in list(refs):
                if refs[s].kind == 'Logging':
                    check_log(s, 'logfile_reader', 'reader switched in at %s#%d' % (kind, run.counts[kind]))
        finally:
            run.faults = saved
            run.observing = False
    run.fault_reader = reader_task
    orig_fire = run.fire
    def fire(f, kind):
        if f['kind'] == 'reader':
            run.fired['reader'] += 1
            reader_task(f, kind); return None
        return orig_fire(f, kind)
    run.fire = fire

    for n_op, op in enumerate(plan['ops']):
        t = op['op']
        when = 'op#%d %s' % (n_op, t)
        try:
            if t == 'new':
                k = op['k']; kw = {} if k is None else {'k': k}
                if op['kind'] == 'Monitor': m = mm.Monitor(**kw)
                elif op['kind'] == 'Verbose': m = mm.VerboseMonitor(1, **kw)
                else: m = mm.LoggingMonitor(op.get('interval', 1), filename=fs.path(op['file']), new=bool(op.get('new_file')), **kw)
                mons[op['slot']] = m
                r = Ref(op['kind'], k, op.get('file'), op.get('interval', 1)); r.lossy = False
                refs[op['slot']] = r
                reuse_bufs[op['slot']] = [0.0] * plan['dim']
            elif t == 'call':
                s = op['slot']
                if s not in mons: continue
                m = mons[s]; r = refs[s]
                if r.kind in ('LoggingSlice', 'LoggingSum'): continue   # copies of a LoggingMonitor share its file by design
                x = mk_x(op['x'], op['xt'], reuse_bufs[s]); y = mk_y(op['y'], op['yt'])
                rec = Rec(list(op['x']), op['y'] if not isinstance(op['y'], list) else list(op['y']), op['id'])
                will_log = r.kind == 'Logging' and (len(r.recs) % r.interval == 0)
                if will_log: r.logged.append((len(r.recs), rec))
                try:
                    if op['id'] is None: m(x, y)
                    else: m(x, y, op['id'])
                except env.SimFault as e:
                    stats['io_errors_loud'] += 1
                    # the in-memory record exists (append precedes the write); the file may lack this record
                    r.recs.append(rec); r.lossy = True
                    if will_log and not _line_durable(fs, r): r.logged.pop()
                    check_slot(s, when + ' (after injected I/O error)')
                    continue
                r.recs.append(rec)
                if will_log: r.acked = len(r.logged)
                stats['records'] += 1
            elif t == 'slice':
                s = op['slot']
                if s not in mons: continue
                sl = slice(op['a'], op['b'], op['step'])
                before = snapshot(mons[s])
                m2 = mons[s][sl]
                mons[op['to']] = m2
                r = refs[s]; r2 = Ref('Monitor' if not r.kind.startswith('Logging') else 'LoggingSlice', r.k); r2.lossy = False
                r2.recs = list(r.recs[sl]); refs[op['to']] = r2
                reuse_bufs[op['to']] = [0.0] * plan['dim']
                unchanged(before, mons[s], violate, when, s)
                stats['concats'] += 1
            elif t == 'select':
                s = op['slot']
                if s not in mons or not len(refs[s].recs) or refs[s].lossy: continue
                r = refs[s]; n = len(r.recs)
                if 'idx' in op['how']:
                    pos = [(v % (2 * n)) - n for v in op['sel']]          # positions in -n .. n-1
                    sel = pos
                else:
                    flags = (list(op['sel']) * (n // len(op['sel']) + 1))[:n]
                    pos = [i for i, f_ in enumerate(flags) if f_]
                    sel = flags
                if op['how'].startswith('np'): sel = numpy.array(sel)
                before = snapshot(mons[s])
                try:
                    m2 = mons[s][sel]
                except Exception as e:
                    violate('monitor_record_changed', '%s: slot %d m[%r] raised %r' % (when, s, sel, e), mon=r.kind); continue
                mons[op['to']] = m2
                r2 = Ref('Monitor' if not r.kind.startswith('Logging') else 'LoggingSlice', r.k); r2.lossy = False
                r2.recs = [r.recs[i] for i in pos]; refs[op['to']] = r2
                reuse_bufs[op['to']] = [0.0] * plan['dim']
                unchanged(before, mons[s], violate, when, s)
                stats['concats'] += 1; stats['selections'] = stats.get('selections', 0) + 1
            elif t in ('add', 'extend', 'prepend'):
                a, b = op['a'], op['b']
                if a not in mons or b not in mons: continue
                if a == b and t != 'add': continue     # m.extend(m)/m.prepend(m): 'the monitor passed' IS the target
                ba, bb = snapshot(mons[a]), snapshot(mons[b])
                if t == 'add':
                    m2 = mons[a] + mons[b]
                    mons[op['to']] = m2
                    r2 = Ref(refs[a].kind if not refs[a].kind.startswith('Logging') else 'LoggingSum', refs[a].k); r2.lossy = False
                    r2.recs = list(refs[a].recs) + list(refs[b].recs); refs[op['to']] = r2
                    reuse_bufs[op['to']] = [0.0] * plan['dim']
                    unchanged(ba, mons[a], violate, when, a); unchanged(bb, mons[b], violate, when, b)
                elif t == 'extend':
                    recs_b = list(refs[b].recs)
                    mons[a].extend(mons[b])
                    refs[a].recs = refs[a].recs + recs_b
                    if a != b: unchanged(bb, mons[b], violate, when, b)
                else:
                    recs_b = list(refs[b].recs)
                    mons[a].prepend(mons[b])
                    refs[a].recs = recs_b + refs[a].recs
                    if a != b: unchanged(bb, mons[b], violate, when, b)
                stats['concats'] += 1
            elif t == 'readlog':
                s = op['slot']
                if s in refs: check_log(s, op['how'], when)
                if s in mons and s in refs and len(refs[s].recs): check_iterations(mg, mons[s], refs[s], violate, stats, when)
            elif t == 'write':
                s = op['slot']
                if s not in mons or not len(refs[s].recs): continue
                if refs[s].kind.startswith('Logging') and refs[s].kind != 'Logging': pass
                run.clock.advance(op.get('dt', 0.0))
                roundtrip(op, mons[s], refs[s], fs, mg, violate, stats, when)
        except env.SimCrash:
            stats['crashes'] += 1
            crashed[0] = True
            run.dead = False
            fs.thaw()
            run.faults = {}
            # a new process: only what was durable survives; the log must parse to a prefix of what was recorded
            for s in list(refs):
                if refs[s].kind == 'Logging':
                    for how in ('logfile_reader', 'read_history'):
                        check_log(s, how, 'new process after crash in %s' % when, after_crash=True)
            return
        except env.SimFault:
            stats['io_errors_loud'] += 1
            continue
        except Exception:
            if run.dead:        # an exception raised after the process died is just the death propagating
                stats['crashes'] += 1
                return
            raise
        if run.dead:
            stats['crashes'] += 1   # died inside a bare 'except:' of mystic; nothing after this instant counts
            return
        for s in list(mons):
            check_slot(s, when)


def flat(v):
    out = []
    def go(u):
        if isinstance(u, (tuple, list)):
            for i in u: go(i)
        else: out.append(float(u) if isinstance(u, (int, float)) and not isinstance(u, bool) else u)
    go(v)
    return tuple(out)

def same_trajectory(got, want_records):
    """the reader's nested layout (per record, per parameter, wrapped in 1-tuples...) holds the recorded
    trajectory: flattened, it is the records-major or the parameter-major listing of the recorded values"""
    g = flat(got)
    rec_major = flat(tuple(want_records))
    par_major = flat(tuple(zip(*want_records))) if want_records else ()
    return feq(g, rec_major) or feq(g, par_major)

def _line_durable(fs, r):
    """after a failed write: did the whole line reach the file anyway?"""
    try:
        with open(fs.path(r.file)) as f:
            data = f.read()
        lines = [l for l in data.split('\n')[:-1] if not l.startswith('#')]
        return len(lines) >= len(r.logged)
    except OSError:
        return False

def snapshot(m):
    return (canon(m._x), canon(m._y), canon(m._id), canon(m.k), len(m))

def unchanged(before, m, violate, when, s):
    after = snapshot(m)
    if not feq(before, after):
        violate('operand_mutated', '%s: operand slot %d was altered by the operation: %s'
                % (when, s, observe.first_diff({'v': before}, {'v': after})))


def check_iterations(mg, m, r, violate, stats, when):
    """the readers that take a monitor hand back (iteration, id) per record: the k-th record of an id is iteration k-1 of that
    id, in whatever order records of different ids arrived (workers / ensemble members sharing one monitor)"""
    ids = [rec.id for rec in r.recs]
    if all(i is None for i in ids): want = [(k,) for k in range(len(ids))]
    else:
        want = []; seen = {}
        for i in ids:
            want.append((seen.get(i, 0), i)); seen[i] = seen.get(i, 0) + 1
    stats['iteration_checks'] = stats.get('iteration_checks', 0) + 1
    for how in ('read_trajectories', 'read_history'):
        try:
            got = getattr(mg, how)(m, iter=True)[0]
        except Exception as e:
            violate('monitor_record_changed', '%s: %s(monitor, iter=True) raised %s: %s' % (when, how, type(e).__name__, str(e)[:160]), how=how)
            continue
        got = [tuple(g) for g in got]
        if got != want:
            violate('monitor_record_changed', '%s: %s(monitor, iter=True) gives the iterations %r for the recorded ids %r, expected %r'
                    % (when, how, got[:8], ids[:8], want[:8]), how=how, interleaved=len(set(ids)) > 1)
            return


def roundtrip(op, m, r, fs, mg, violate, stats, when):
    """write_*_file then the matching reader: the same trajectory comes back"""
    path = fs.path(op['file'])
    fmt = op['fmt']
    writer = {'raw': mg.write_raw_file, 'support': mg.write_support_file, 'converge': mg.write_converge_file}[fmt]
    reader = {'raw': mg.read_raw_file, 'support': mg.read_support_file, 'converge': mg.read_converge_file}[fmt]
    existed = os.path.exists(path)
    writer(m, path)
    if existed: stats['stale_rereads'] += 1
    try:
        params, cost = reader(path)
    except Exception as e:
        if env.CUR.dead: raise env.SimCrash('process died inside the reader')
        violate('file_roundtrip_differs', '%s: write_%s_file then read_%s_file raised %s: %s'
                % (when, fmt, fmt, type(e).__name__, str(e)[:200]), fmt=fmt, rewrite=existed)
        return
    stats['file_roundtrips'] += 1
    wx = [cx(rec.x) for rec in r.recs]; wy = [cy(rec.y) for rec in r.recs]
    gx = cx(params); gy = cy(cost)
    ok_y = feq(flat(gy), flat(tuple(wy)))
    ok_x = same_trajectory(gx, wx)
    if not (ok_x and ok_y):
        kind = 'stale_file_read' if existed else 'file_roundtrip_differs'
        violate(kind, '%s: %s file read back as %d records x=%r.. y=%r.., recorded %d records x=%r.. y=%r..'
                % (when, fmt, len(gy), gx[:2], gy[:2], len(wy), wx[:2], wy[:2]), fmt=fmt, rewrite=existed)


def simplify(plan):
    for i in range(len(plan.get('faults', []))):
        p = dict(plan); p['faults'] = plan['faults'][:i] + plan['faults'][i + 1:]
        yield p
