"""C06 -- a checkpointed solver resumes exactly as if it had never been interrupted.

Per sampled configuration: an uninterrupted reference run of N steps is recorded (snapshot and
library RNG state after every step).  Then every generation boundary k (thorough) / a seeded
subset (quick) is used as interruption point for each restore path:
  save     SaveSolver(file) after step k, process ends, LoadSolver(file) in a new process
  dill     dill.dumps / dill.loads
  deepcopy copy.deepcopy (independence: original and copy stepped alternately)
  periodic SetSaveFrequency dump + simulated process death at a seeded seam crossing
           (cost call, file write, close) + LoadSolver of whatever is durable
  torn     process death inside a save (buffered bytes lost or a torn prefix written)
The restored solver is stepped to N and compared, step by step, with the reference.
"""
import copy, random as _random, hashlib
import numpy
from .. import env, engine, observe, solverplan, gen, fs as simfs
from ..env import sub_rng
from ..observe import first_diff

ID = 'C06'
LEVEL = 'fault_enumeration'
RUNS = {'quick': 400, 'thorough': 6000}
WALL = {'quick': 150, 'thorough': 2400}
RULE = ("per sampled configuration (solver, bounds, constraints, penalty, monitors incl. LoggingMonitor, save frequency) the "
        "interruption points (generation boundaries for SaveSolver/dill/deepcopy; seam crossings = cost calls, file writes, closes "
        "for the periodic dump and for crashes inside a save) are enumerated -- all of them in thorough tier, a seeded third in quick "
        "tier -- and each restored run is compared with the uninterrupted run after every subsequent step; a run is non-trivial when "
        "at least one restore continued for >= 2 steps; distinct = trace digests")
ASSUMPTIONS = ["the library RNG state (random + numpy.random) captured at the checkpoint instant is re-installed before continuing, as the property states",
               "DUMPED/LOADED info notes of the step monitor and the registered file name are not part of the compared state",
               "process death is simulated by unwinding (SimCrash) and discarding all objects; only files made durable survive",
               "a crash inside a save destroys the previous checkpoint (in-place truncate): counted as an observation, not a violation"]
REAL = ["mystic solvers, SaveSolver/LoadSolver/__deepcopy__, dill pickling, monitors (incl. LoggingMonitor on real files)"]
STUB = ["cost/constraint/penalty/callback peers", "file layer (SimFS buffering, crash/torn-write injection)",
        "process death (exception unwinding + object discard)", "library RNG state capture/restore"]
LEVEL_TEXT = ("crash/interruption points are enumerated within each sampled configuration (in the thorough tier all of them, up to 48 per path) and every "
              "restored continuation is checked for exact equality with the uninterrupted run at every later step")
LEVEL_NOTE = ("trusts snapshot equality over the observable state listed in DESIGN.md 3.8; configurations are sampled from seeds; "
              "Powell's mid-step periodic dump and deepcopy's detached counter are listed known findings")
RUN_WALL = 120

KNOBS = dict(p_term=0.3, p_limits=0.0, p_midrun_set=0.0, p_solve=0.0, p_finalize=0.0, max_ops=0, p_vector=0.05,
             p_bounds=0.35, p_constraint=0.3, p_penalty=0.3, p_monitors=0.6, p_logging=0.25, max_dim=3,
             cost_models=['quad', 'quad', 'rosen', 'abs', 'quant'])

IGNORE = ('_clock', 'earlyexit', 'maxiter', 'maxfun')   # limits are resolved lazily (None -> default) by Terminated()

def gen_plan(seed, tier):
    plan = solverplan.gen_solver_plan(seed, tier, ID, KNOBS)
    rng = sub_rng(seed, 'plan.c06')
    plan['ops'] = [o for o in plan['ops'] if o['op'] == 'set']       # configuration only
    # termination must not stop these short runs; generous limits
    plan['ops'] = [o for o in plan['ops'] if o['what'] != 'termination']
    plan['ops'].append({'op': 'set', 'what': 'termination', 'arg': {'t': 'VTR', 'kw': {'tolerance': 1e-300, 'target': -1e300}}})
    # limits given before the run (generous: they never stop these short runs), also as 'new' budgets with no number -- mystic keeps a
    # placeholder for those until the next Terminated(), and a restart file written in between carries the placeholder
    r0 = sub_rng(seed, 'plan.c06.limits')
    if r0.random() < 0.3:
        plan['ops'].insert(r0.randint(1, len(plan['ops'])), {'op': 'set', 'what': 'limits',
                           'arg': [r0.choice([None, None, 500]), r0.choice([None, None, 100000]), r0.random() < 0.6]})
    N = rng.randint(3, 8 if tier == 'quick' else 12)
    plan['N'] = N
    plan['save_every'] = rng.choice([1, 1, 2, 3])
    full = (tier == 'thorough')
    ks = list(range(0, N))
    plan['ks'] = ks if full else sorted(rng.sample(ks, max(1, len(ks) // 3)))
    plan['paths'] = ['save', 'dill', 'deepcopy', 'periodic', 'torn']
    # reconfiguration during the run (applied at the same step in every execution)
    mid = []
    if rng.random() < 0.45:
        for _ in range(rng.choice([1, 1, 2])):
            what = rng.choice(['evalmon', 'evalmon', 'penalty', 'limits', 'stepmon'])
            at = rng.randint(1, N - 1)
            if what == 'evalmon': op = {'op': 'set', 'what': 'evalmon', 'arg': {'kind': 'Monitor', 'new': rng.random() < 0.5}}
            elif what == 'penalty': op = {'op': 'set', 'what': 'penalty', 'arg': gen.gen_penalty(rng, plan['dim'])}
            elif what == 'limits': op = {'op': 'set', 'what': 'limits', 'arg': [rng.choice([None, 500]), rng.choice([None, 100000]), rng.random() < 0.5]}
            else: op = {'op': 'set', 'what': 'stepmon', 'arg': {'kind': 'Monitor'}}
            mid.append([at, op])
    plan['midrun'] = sorted(mid, key=lambda m: m[0])
    for o in plan['ops']:
        if o['op'] == 'set' and o['what'] == 'evalmon' and rng.random() < 0.3:
            o['arg'] = dict(o['arg'], prefill=rng.randint(1, 4))
    plan['crash_frac'] = 1.0 if full else 0.34
    if plan['solver'] == 'Powell' and plan['N'] > 7:
        # (each Powell iteration is ~50 cost calls, each through the constraint loop when the ranges are tight)
        plan['N'] = N = 7; ks = list(range(0, N)); plan['ks'] = ks if full else sorted(rng.sample(ks, max(1, len(ks) // 3)))
        plan['midrun'] = [m for m in plan['midrun'] if m[0] < N]
    plan['crash_seed'] = rng.randrange(1 << 30)
    # 'solve' path: the run is one Solve(cost, **settings) with the solver-specific settings given ONCE as keywords and a
    # restart dump every generation; the process dies after generation k and the restored solver is continued by a bare
    # Solve() -- every setting the uninterrupted run was using has to come out of the restart file
    r2 = sub_rng(seed, 'plan.c06.solve')
    if r2.random() < 0.6:
        plan['paths'].append('solve')
        sv = plan['solver']
        if sv in ('DE', 'DE2'):
            plan['solve_kw'] = {'strategy': r2.choice(['Rand1Bin', 'Rand1Exp', 'Best1Exp', 'RandToBest1Bin', 'Best1Bin', 'RandToBest1Exp']),
                                'CrossProbability': r2.choice([0.3, 0.5, 0.9, 1.0]), 'ScalingFactor': r2.choice([0.4, 0.8, 1.2])}
            if plan.get('npop', 4) < 5: plan['npop'] = 5
        elif sv == 'NM':
            plan['solve_kw'] = {'adaptive': r2.random() < 0.6, 'radius': r2.choice([0.05, 0.1, 0.3])}
        else:
            plan['solve_kw'] = {'xtol': r2.choice([1e-4, 1e-2, 1e-6])}
        if r2.random() < 0.25: plan['solve_kw'] = {}
    if r2.random() < 0.5:
        plan['paths'].append('stopresume')
        plan['stop_save_every'] = r2.choice([None, None, 1, 2])
        r4 = sub_rng(seed, 'plan.c06.sigint')
        if r4.random() < 0.35:
            plan['stop_by'] = 'sigint'; plan['sigint_at'] = r4.randint(2, 40)
    return plan


def rng_state():
    return (_random.getstate(), numpy.random.get_state())

def set_rng_state(st):
    _random.setstate(st[0]); numpy.random.set_state(st[1])


def strip(s):
    """the compared part of a snapshot"""
    d = dict(s)
    for k in list(d):
        if k.startswith('_') or k in IGNORE: d.pop(k)
    for m in ('stepmon', 'evalmon'):
        if d.get(m):
            mm = dict(d[m]); mm.pop('info', None); d[m] = mm
    return d


class Exec(object):
    """one simulated process life: a fresh Harness over the shared Run"""
    def __init__(self, run, plan, tag):
        self.run = run; self.plan = plan; self.tag = tag
        run.fs.subdir = tag
        self.h = engine.Harness(run, plan, [])
        self.h.cur = 'orig'
        self.h.build()
        for op in plan['ops']:
            self.h.do(op)
    def step(self, solver=None, owner=None, j=None):
        h = self.h
        self.run.owner = owner or self.tag
        s = solver or h.solver
        if j is not None:
            for (at, op) in self.plan.get('midrun', []):
                if at == j:
                    saved = (h.solvers, h.cur)
                    h.solvers = {'x': s}; h.cur = 'x'
                    try: h.do(op)
                    finally: h.solvers, h.cur = saved
        cost = None
        if not h.passed_cost and solver is None:
            cost = h.cost; h.passed_cost = True
        return s.Step(cost, callback=env.SimCallback())


def run_plan(plan):
    run = env.Run(plan['seed'], budget=3000000)
    env.begin(run)
    run.fs = simfs.SimFS(run)
    run.fs.plant()
    V = []
    stats = {'restores': 0, 'restore_steps': 0, 'crash_points': 0, 'loads_failed_loudly': 0,
             'checkpoints_lost_to_torn_save': 0, 'independence_runs': 0}
    tags0 = {'solver': plan['solver']}
    for o in plan['ops']:
        if o['op'] == 'set' and o['what'] in ('bounds', 'constraint', 'penalty', 'stepmon', 'evalmon', 'reducer'):
            a = o.get('arg') or {}
            tags0[o['what']] = (a.get('kind') or a.get('family') or True) if isinstance(a, dict) else a
    def violate(kind, detail, **tags):
        t = dict(tags0); t.update(tags)
        V.append(engine.Violation(ID, kind, plan['solver'], t, detail))
    try:
        with engine.patched_world(run):
            _run(plan, run, violate, stats)
    finally:
        run.fs.cleanup()
        env.end()
    tr = repr(observe.canon(run.trace)) + repr(len(run.evals)) + repr(sorted(stats.items()))
    return {'violations': V, 'digest': hashlib.sha1(tr.encode()).hexdigest(), 'probes': run.probes,
            'fired': run.fired, 'sim_s': run.clock.covered, 'nontrivial': stats['restore_steps'] >= 2,
            'stats': dict(stats, cost_calls=len(run.evals), seam_crossings=run.ncross)}


def compare(ref_snaps, k, snap, violate, path, what, **tags):
    a = strip(ref_snaps[k]); b = strip(snap)
    d = first_diff(a, b)
    if not d:
        # limits are resolved lazily (None / new=True placeholders become numbers at the next Terminated()): once both runs hold
        # numbers, they are the same numbers
        for key in ('maxiter', 'maxfun'):
            va, vb = ref_snaps[k].get(key), snap.get(key)
            if isinstance(va, (int, float)) and isinstance(vb, (int, float)) and not isinstance(va, bool) and va != vb:
                d = '/%s(%r!=%r)' % (key, va, vb); break
    if d:
        field = d.split('/')[1].split('[')[0].split('(')[0].split('#')[0] if '/' in d else d
        violate('restore_diverged@%s' % field, '%s: path=%s restored vs uninterrupted run differ at step %d: %s'
                % (what, path, k + 1, d[:300]), path=path, **tags)
        return False
    return True


def continue_and_compare(plan, run, ex, solver, k, ref_snaps, ref_rng, violate, stats, path, **tags):
    """step a restored solver from boundary k (k+1 steps done) to N; compare after every step"""
    N = plan['N']
    set_rng_state(ref_rng[k])
    stats['restores'] += 1
    tag = ex.tag + ':' + path
    n0 = len([1 for e in run.evals if e.owner == tag])
    ev0 = solver.evaluations
    for j in range(k + 1, N):
        try:
            ex.step(solver, owner=tag, j=j)
        except (env.SimCrash, env.SimHang):
            raise
        except Exception as e:
            violate('restore_failed_to_step', 'path=%s: restored at step %d, Step #%d raised %s: %s'
                    % (path, k + 1, j + 1, type(e).__name__, str(e)[:200]), path=path, **tags)
            return False
        stats['restore_steps'] += 1
        if not compare(ref_snaps, j, ex.h.snap(solver), violate, path, 'continued', **tags):
            return False
    mine = len([1 for e in run.evals if e.owner == tag]) - n0
    if solver.evaluations - ev0 != mine:
        violate('copy_counter_not_own', 'path=%s: restored at step %d, made %d real cost calls afterwards but its '
                'evaluation counter moved by %d' % (path, k + 1, mine, solver.evaluations - ev0), path=path, **tags)
    return True


def _run(plan, run, violate, stats):
    import dill
    from mystic.solvers import LoadSolver
    N = plan['N']
    fs = run.fs
    # ---------------- reference: uninterrupted
    ref = Exec(run, plan, 'ref')
    ref_snaps = []; ref_rng = []; blobs = {}; copies = {}
    for k in range(N):
        ref.step(j=k)
        ref_snaps.append(ref.h.snap())
        ref_rng.append(rng_state())
        if k in plan['ks']:
            if 'dill' in plan['paths']:
                try: blobs[k] = dill.dumps(ref.h.solver)
                except Exception as e: blobs[k] = e
            if 'deepcopy' in plan['paths']:
                try: copies[k] = copy.deepcopy(ref.h.solver)
                except Exception as e: copies[k] = e
        # the reference must not be perturbed by having been pickled / copied
    ref_final = strip(ref_snaps[-1])

    # ---------------- dill round trip at boundary k
    for k, blob in blobs.items():
        if isinstance(blob, Exception):
            violate('restore_failed_to_step', 'dill.dumps raised %r at step %d' % (blob, k + 1), path='dill'); continue
        s2 = dill.loads(blob)
        compare(ref_snaps, k, ref.h.snap(s2), violate, 'dill', 'right after restore') and \
            continue_and_compare(plan, run, ref, s2, k, ref_snaps, ref_rng, violate, stats, 'dill')

    # ---------------- deepcopy at boundary k; independence
    for k, c in copies.items():
        if isinstance(c, Exception):
            violate('restore_failed_to_step', 'copy.deepcopy raised %r at step %d' % (c, k + 1), path='deepcopy'); continue
        if not compare(ref_snaps, k, ref.h.snap(c), violate, 'deepcopy', 'right after copy'): continue
        continue_and_compare(plan, run, ref, c, k, ref_snaps, ref_rng, violate, stats, 'deepcopy')
        stats['independence_runs'] += 1
    # the original (reference) must be unchanged by everything done to its copies
    d = first_diff(ref_final, strip(ref.h.snap()))
    if d:
        violate('copy_not_independent', 'stepping restored/copied solvers changed the original: %s' % d[:300], path='deepcopy')

    # ---------------- SaveSolver after step k -> process ends -> LoadSolver
    if 'save' in plan['paths']:
        for k in plan['ks']:
            ex = Exec(run, plan, 'save%d' % k)
            for j in range(k + 1): ex.step(j=j)
            path = fs.path('manual.pkl')
            try:
                ex.h.solver.SaveSolver(path)
            except Exception as e:
                violate('restore_failed_to_step', 'SaveSolver raised %s: %s' % (type(e).__name__, str(e)[:200]), path='save')
                continue
            orig = ex.h.solver
            # the saver itself goes on unperturbed (independence of original from the saved state)
            fs.thaw()
            try:
                s2 = LoadSolver(path)
            except Exception as e:
                violate('restore_failed_to_step', 'LoadSolver raised %s: %s' % (type(e).__name__, str(e)[:200]), path='save')
                continue
            if compare(ref_snaps, k, ex.h.snap(s2), violate, 'save', 'right after LoadSolver'):
                continue_and_compare(plan, run, ex, s2, k, ref_snaps, ref_rng, violate, stats, 'save')
                # the same, unchanged restart file is read once more in the same process, after the first restored solver
                # has moved on: what comes out is again the checkpointed state, not something shared with the first one
                try:
                    s3 = LoadSolver(path)
                except Exception as e:
                    violate('restore_failed_to_step', 'a second LoadSolver of the same file raised %s: %s' % (type(e).__name__, str(e)[:200]), path='save')
                    continue
                run.probe('c06.loaded_twice')
                if compare(ref_snaps, k, ex.h.snap(s3), violate, 'save', 'right after a SECOND LoadSolver of the unchanged file', second_load=True) and k < N - 1:
                    set_rng_state(ref_rng[k])
                    try:
                        ex.step(s3, owner=ex.tag + ':save2', j=k + 1)
                        compare(ref_snaps, k + 1, ex.h.snap(s3), violate, 'save', 'second restored solver after one step', second_load=True)
                    except (env.SimCrash, env.SimHang):
                        raise
                    except Exception as e:
                        violate('restore_failed_to_step', 'second restored solver: Step raised %s: %s' % (type(e).__name__, str(e)[:200]), path='save')
            # original untouched by the restored one
            if k < N - 1:
                set_rng_state(ref_rng[k])
                ex.step(orig, j=k + 1)
                compare(ref_snaps, k + 1, ex.h.snap(orig), violate, 'save', 'original after the restored copy ran')

    # ---------------- one Solve(cost, **settings) with a dump per generation; death after generation k; bare Solve() resumes
    if 'solve' in plan['paths'] and N >= 3:
        run_solve_path(plan, run, violate, stats)

    # ---------------- run to a stop (the restart file written AT the stop is the last word on disk), then both the stopped
    # original and a solver restored from that file are continued the same way
    if 'stopresume' in plan['paths'] and N >= 3:
        run_stopresume_path(plan, run, violate, stats)

    # ---------------- periodic dump + crash at an enumerated seam crossing
    crng = sub_rng(plan['crash_seed'], 'crash')
    if 'periodic' in plan['paths'] or 'torn' in plan['paths']:
        every = plan['save_every']
        pplan = dict(plan)
        pplan['ops'] = plan['ops'] + [{'op': 'set', 'what': 'save', 'arg': {'every': every, 'file': 'periodic.pkl'}}]
        # dry run: where are the seam crossings, and after which crossing is which dump durable
        base = dict(run.counts)
        dry = Exec(run, pplan, 'dry')
        marks = []          # (kind, n_relative) of every crossing inside the stepping phase
        seen = dict(run.counts)
        for j in range(N):
            dry.step(j=j)
            for kind in ('cost', 'fs.open', 'fs.write', 'fs.close'):
                for n in range(seen.get(kind, 0) + 1, run.counts.get(kind, 0) + 1):
                    marks.append((kind, n - base.get(kind, 0), j))
            seen = dict(run.counts)
        # periodic dumps must not change the trajectory
        compare(ref_snaps, N - 1, dry.h.snap(), violate, 'periodic', 'a run with SetSaveFrequency vs one without')
        points = [m for m in marks if m[0] == 'cost'] if 'periodic' in plan['paths'] else []
        tpoints = [m for m in marks if m[0] in ('fs.write', 'fs.close')] if 'torn' in plan['paths'] else []
        def sample(ps):
            cap = plan.get('crash_cap', 48)       # (Powell makes ~50 cost calls per iteration: every one of them a crash point is hours)
            if plan['crash_frac'] >= 1.0 or len(ps) <= 2:
                return ps if len(ps) <= cap else sorted(crng.sample(ps, cap), key=lambda m: (m[2], m[1]))
            n = max(1, int(len(ps) * plan['crash_frac'] / 4))
            return sorted(crng.sample(ps, min(len(ps), n)), key=lambda m: (m[2], m[1]))
        for (kind, nrel, j) in sample(points) + sample(tpoints):
            stats['crash_points'] += 1
            b = dict(run.counts)
            ex = None
            try:
                run.faults = {}
                ex = Exec(run, pplan, 'crash-%s%d' % (kind, nrel))
                fault = {'kind': 'crash', 'at': '%s#%d' % (kind, nrel)}
                if kind != 'cost': fault['torn'] = crng.choice([None, 0.0, 0.3, 0.9])
                run.faults = {(kind, b.get(kind, 0) + nrel): fault}
                for jj in range(N): ex.step(j=jj)
                run.faults = {}
                continue       # crash point not reached (different crossing numbering): nothing to check
            except env.SimCrash:
                pass
            finally:
                run.faults = {}
            run.dead = False
            fs.thaw()
            path = fs.path('periodic.pkl')
            import os
            if not os.path.exists(path):
                continue            # died before the first dump: nothing durable, nothing promised
            try:
                s2 = LoadSolver(path)
            except Exception as e:
                stats['loads_failed_loudly'] += 1
                if kind != 'cost': stats['checkpoints_lost_to_torn_save'] += 1
                else:
                    violate('restore_failed_to_step', 'crash at %s#%d (outside any save): LoadSolver of the periodic dump raised '
                            '%s: %s' % (kind, nrel, type(e).__name__, str(e)[:160]), path='periodic')
                continue
            g = s2.generations
            ptag = 'torn' if kind != 'cost' else 'periodic'
            # which boundary does the dump hold?  the evaluation counter is strictly increasing over steps
            ks_ = [i for i in range(N) if ref_snaps[i]['evaluations'] == s2.evaluations]
            if not ks_:
                violate('torn_checkpoint_loaded_as_different_state', 'crash at %s#%d: loaded a solver with %d evaluations / generation '
                        '%r, a state the uninterrupted run never was in at a step boundary' % (kind, nrel, s2.evaluations, g), path=ptag)
                continue
            snap2 = strip(ex.h.snap(s2))
            exact = [i for i in ks_ if first_diff(strip(ref_snaps[i]), snap2) is None]
            sameg = [i for i in ks_ if ref_snaps[i]['generations'] == g]
            k = (exact or sameg or ks_)[0]      # (a generation without evaluations repeats the counter)
            if any(at == k + 1 for (at, _) in plan.get('midrun', [])):
                ok = True      # the dump may have been taken by the reconfiguration itself (Finalize): only the continuation is comparable
            else:
                ok = compare(ref_snaps, k, ex.h.snap(s2), violate, ptag, 'dump loaded after crash at %s#%d' % (kind, nrel),
                             save_every=every)
            if ok:
                continue_and_compare(plan, run, ex, s2, k, ref_snaps, ref_rng, violate, stats, ptag, save_every=every)


class _Recorder(object):
    """harness oracle: at every iteration boundary keep the RNG state and the bytes of the restart file on disk"""
    def __init__(self, path):
        self.path = path; self.rng = []; self.dumps = []
    def on_step(self, h, snap):
        import os
        self.rng.append(rng_state())
        try:
            with simfs._real_open(self.path, 'rb') as f: self.dumps.append(f.read())
        except OSError:
            self.dumps.append(None)


def _solve_kwargs(plan):
    import mystic.strategy as st
    kw = dict(plan.get('solve_kw') or {})
    if 'strategy' in kw: kw['strategy'] = getattr(st, kw['strategy'])
    return kw


def run_stopresume_path(plan, run, violate, stats):
    from mystic.solvers import LoadSolver
    N = plan['N']; fs = run.fs
    G1 = max(1, N // 2); G2 = N + 1
    splan = dict(plan); splan['midrun'] = []
    splan['ops'] = plan['ops'] + [{'op': 'set', 'what': 'limits', 'arg': [G1, None]}]
    ex = Exec(run, splan, 'stopresume')
    h = ex.h
    path = fs.path('stop.pkl')
    every = plan.get('stop_save_every')
    h.solver.SetSaveFrequency(every, path)
    run.owner = 'stopresume'
    kw = _solve_kwargs(plan) if plan.get('solve_kw') else {}
    by_sigint = plan.get('stop_by') == 'sigint'
    if by_sigint:
        # the stop is the user's: Ctrl-C during the run, mystic's handler enabled, 'exit' answered at the prompt.  The restart file
        # written at that stop and the stopped solver are the same solver: whatever the one does next, the other does too
        h.solver.enable_signal_handler()
        h.solver.SetEvaluationLimits(G2, None)
        fkey = ('cost', run.counts['cost'] + int(plan.get('sigint_at', 5)))
        run.faults[fkey] = {'at': 'cost#*', 'kind': 'interrupt', 'tty': ['exit']}
        run.probe('c06.stopresume.by_sigint')
    try:
        try:
            h.solver.Solve(h.cost, callback=env.SimCallback(), **kw)
        finally:
            if by_sigint: run.faults.pop(fkey, None)       # (not reached: the run ended first -- an ordinary stop)
    except (env.SimCrash, env.SimHang):
        raise
    except Exception as e:
        run.probe('c06.stopresume.reference_raised.%s' % type(e).__name__); return
    import os
    if not os.path.exists(path):
        violate('restore_failed_to_step', 'the run stopped but no restart file was written although one is registered', path='stopresume'); return
    with simfs._real_open(path, 'rb') as f: blob = f.read()
    rng0 = rng_state()
    stopped = h.snap()
    run.probe('c06.stopresume.runs')
    def carry_on(hh, solver, owner):
        run.owner = owner
        hh.step_snaps = []
        solver.SetEvaluationLimits(G2, None)
        if by_sigint:
            # first as a caller who just steps on (the exit request is still pending, or it is not: the same for both), then Solve
            for _ in range(2):
                m_ = solver.Step(callback=env.SimCallback())
                hh.step_snaps.append(dict(hh.snap(solver), _msg=observe.canon_msg(m_)))
            solver.disable_signal_handler()
        solver.Solve(callback=env.SimCallback())
        return list(hh.step_snaps)
    try:
        ref = carry_on(h, h.solver, 'stopresume')
    except (env.SimCrash, env.SimHang):
        raise
    except Exception as e:
        run.probe('c06.stopresume.reference_raised.%s' % type(e).__name__); return
    fs.thaw(); fs.subdir = 'stopresume-new'
    p2 = fs.path('restart.pkl')
    with simfs._real_open(p2, 'wb') as f: f.write(blob)
    tags = {'path': 'stopresume', 'save_every': every}
    try:
        s2 = LoadSolver(p2)
    except Exception as e:
        violate('restore_failed_to_step', 'LoadSolver of the restart file written at the stop raised %s: %s' % (type(e).__name__, str(e)[:200]), **tags); return
    h2 = engine.Harness(run, splan, [])
    h2.solvers = {'orig': s2}; h2.cur = 'orig'; h2.passed_cost = True
    d = first_diff(strip(stopped), strip(h2.snap(s2)))
    if d:
        field = d.split('/')[1].split('[')[0].split('(')[0].split('#')[0] if '/' in d else d
        violate('restore_diverged@%s' % field, 'the restart file written at the stop differs from the stopped solver: %s' % d[:300], **tags)
        return
    set_rng_state(rng0)
    stats['restores'] += 1
    try:
        got = carry_on(h2, s2, 'stopresume-new')
    except (env.SimCrash, env.SimHang):
        raise
    except Exception as e:
        violate('restore_failed_to_step', 'restored from the restart file written at the stop, continuing raised %s: %s'
                % (type(e).__name__, str(e)[:200]), **tags); return
    stats['restore_steps'] += len(got)
    if len(got) != len(ref):
        violate('restore_diverged@generations', 'path=stopresume: the restored solver ran %d more iterations, the stopped original %d'
                % (len(got), len(ref)), **tags); return
    for j, (a, b) in enumerate(zip(ref, got)):
        d = first_diff(strip(a), strip(b))
        if d:
            field = d.split('/')[1].split('[')[0].split('(')[0].split('#')[0] if '/' in d else d
            violate('restore_diverged@%s' % field, 'path=stopresume: continued after the stop, iteration %d differs: %s' % (j + 1, d[:300]), **tags)
            return


def run_solve_path(plan, run, violate, stats):
    from mystic.solvers import LoadSolver
    N = plan['N']; fs = run.fs
    splan = dict(plan)
    splan['midrun'] = []
    splan['ops'] = plan['ops'] + [{'op': 'set', 'what': 'limits', 'arg': [N - 1, None]},
                                  {'op': 'set', 'what': 'save', 'arg': {'every': 1, 'file': 'solve.pkl'}}]
    ex = Exec(run, splan, 'solve-ref')
    h = ex.h
    rec = _Recorder(fs.path('solve.pkl'))
    h.oracles = [rec]
    run.owner = 'solve-ref'
    try:
        h.solver.Solve(h.cost, callback=env.SimCallback(), **_solve_kwargs(plan))
    except (env.SimCrash, env.SimHang):
        raise
    except Exception as e:
        run.probe('c06.solve_path.reference_raised.%s' % type(e).__name__)
        return
    ref = list(h.step_snaps)
    if len(ref) < 3: return
    run.probe('c06.solve_path.reference_runs')
    tags = dict(path='solve', **{('kw_' + k_): v for k_, v in (plan.get('solve_kw') or {}).items()})
    for k in [k_ for k_ in plan['ks'] if k_ < len(ref) - 1]:
        blob = rec.dumps[k]
        if blob is None:
            violate('restore_failed_to_step', 'no restart file on disk after generation %d although SetSaveFrequency(1) was set' % k, **tags)
            continue
        fs.thaw()
        fs.subdir = 'solve-restore%d' % k
        path = fs.path('restart.pkl')
        with simfs._real_open(path, 'wb') as f: f.write(blob)
        try:
            s2 = LoadSolver(path)
        except Exception as e:
            violate('restore_failed_to_step', 'LoadSolver of the generation-%d restart file raised %s: %s' % (k, type(e).__name__, str(e)[:200]), **tags)
            continue
        h2 = engine.Harness(run, splan, [])
        h2.solvers = {'orig': s2}; h2.cur = 'orig'; h2.passed_cost = True
        if not compare(ref, k, h2.snap(s2), violate, 'solve', 'restart file of generation %d right after LoadSolver' % k, **{k_: v for k_, v in tags.items() if k_ != 'path'}):
            continue
        set_rng_state(rec.rng[k])
        stats['restores'] += 1
        run.owner = 'solve-restore%d' % k
        try:
            s2.Solve(callback=env.SimCallback())            # bare: no settings repeated
        except (env.SimCrash, env.SimHang):
            raise
        except Exception as e:
            violate('restore_failed_to_step', 'restored from the generation-%d restart file, a bare Solve() raised %s: %s'
                    % (k, type(e).__name__, str(e)[:200]), **tags)
            continue
        got = list(h2.step_snaps)
        want = ref[k + 1:]
        stats['restore_steps'] += len(got)
        if len(got) != len(want):
            violate('restore_diverged@generations', 'path=solve: resumed from generation %d the bare Solve() ran %d more iterations, the '
                    'uninterrupted Solve ran %d more' % (k, len(got), len(want)), **tags)
            continue
        for j, sn in enumerate(got):
            if not compare(ref, k + 1 + j, sn, violate, 'solve', 'continued by a bare Solve()', **{k_: v for k_, v in tags.items() if k_ != 'path'}):
                break


def simplify(plan):
    for i, op in enumerate(plan['ops']):
        if op['op'] == 'set' and op['what'] not in ('init', 'termination'):
            p = dict(plan); p['ops'] = plan['ops'][:i] + plan['ops'][i + 1:]
            yield p
    if len(plan['paths']) > 1:
        for pth in plan['paths']:
            p = dict(plan); p['paths'] = [pth]
            yield p
    if len(plan['ks']) > 1:
        for k in plan['ks']:
            p = dict(plan); p['ks'] = [k]
            yield p
    for i in range(len(plan.get('midrun', []))):
        p = dict(plan); p['midrun'] = plan['midrun'][:i] + plan['midrun'][i + 1:]
        yield p
    if plan['N'] > 2 and not plan.get('midrun'):
        p = dict(plan); p['N'] = plan['N'] - 1; p['ks'] = [k for k in plan['ks'] if k < p['N']] or [0]
        yield p
    if plan['crash_frac'] > 0.05:
        p = dict(plan); p['crash_frac'] = plan['crash_frac'] / 2
        yield p

OPS_KEY = 'none'
valid = solverplan.valid_solver_plan
RUNS = {'quick': 250, 'thorough': 6000}
