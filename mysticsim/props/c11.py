"""C11 -- dimensional collapse is detected per definition, applied exactly, reported once.

Two experiment kinds per seed:
  solver    NM / Powell / DE / DE2 on scripted objectives with flat, tied, plateau and high-cost-slab
            directions, with Or(stop, CollapseAt | CollapseAs | CollapseCost ...) (also nested in When/And)
            and short look-back windows; run either by mystic's own collapse loop (Solve) or by a manual
            Step / Collapsed / Collapse loop.  solver.Collapse is observed (instance wrapper): every applied
            collapse yields relations that every later real cost call and the final solution must satisfy
            exactly; the termination's masks must grow by exactly what was applied; nothing already masked or
            applied may be reported again; the run must finish within a seam-crossing budget.
  measure   a solver over the flattened parameters of a small product measure with a Monitor(npts=...) as
            step monitor: collapse_weight / collapse_position in every mask format.
At every iteration boundary of both kinds a forest of detector calls (all five detectors, masks in every
accepted format) and every installed Collapse* condition is compared with CollapseRef, a pure-Python
evaluation of the documented tolerance test on the canonical snapshot of the step monitor, and each detector
is re-run with its own output merged into its mask (must add nothing).
"""
import hashlib, math
import numpy
from .. import env, engine, observe, solverplan, gen, fs as simfs
from ..env import sub_rng
from ..observe import canon, feq

ID = 'C11'
LEVEL = 'exploration'
REQUIRED_PROBES = ['c11.collapse_applied', 'c11.compared.at', 'c11.compared.as', 'c11.compared.cost', 'c11.compared.weight', 'c11.compared.position', 'c11.fired.at', 'c11.fired.as']
RUNS = {'quick': 1000, 'thorough': 30000}
WALL = {'quick': 150, 'thorough': 1800}
RULE = ("per seed one experiment: (solver) NM/Powell/DE/DE2, dim 2-5, objectives with flat/tied/plateau/slab directions, optional box, "
        "penalty and user constraint, termination Or/And/When trees holding 1-3 Collapse* conditions (targets None/scalar/list, windows 1-8, "
        "tolerances 1e-4..1, masks None/empty/partial in every accepted format) plus a stop condition, run by Solve (mystic's collapse loop) "
        "or by a manual Step/Collapsed/Collapse loop; (measure) collapse_weight/collapse_position over a product-measure monitor; a forest of "
        "detector calls and all installed Collapse* conditions are compared with CollapseRef at every iteration boundary; relations from every "
        "applied collapse are checked on every later cost call; non-trivial = a detector fired or a collapse was applied; distinct = trace digests")
ASSUMPTIONS = ["no user constraint is installed besides the collapses: mystic applies the user's constraint AFTER the collapse relations "
               "(chain(*conditions)(constraints)), so a user constraint that does not preserve a relation (a pin on a tied index, rounding of a "
               "fixed value) would legitimately override it",
               "with strict ranges the relations a collapse may impose are kept box-compatible (fixed targets inside the box, uniform box when "
               "pairs may be tied, no CollapseCost -- its applied form re-draws at random in intervals that reach to infinity), the precondition "
               "C01-C03 state for constraints",
               "CollapseAs(offset=True) is compared at detector level only: mystic applies it as x[j] = x[i] + True, which is not the 'equal to its "
               "partner' relation the property states for applied collapses",
               "when an index is both fixed (CollapseAt) and tied (CollapseAs) by applied collapses the two exact relations can only hold jointly if "
               "the fixed values agree; the oracle then requires the tied group to sit exactly at the fixed value of one of its members",
               "collapse_cost: the documented test is checked as (a) a parameter is reported iff its sorted samples contain >= `samples` consecutive "
               "ones costing more than `limit` above the minimum (clip=False; only 'reported => such a run exists' for clip=True), (b) every sample "
               "within `limit` of the minimum lies inside the reported retained intervals (mask=None), (c) own output as mask gives {}; parameters whose "
               "sorted order has ties with mixed flags are skipped (argsort tie order is not part of the definition)",
               "measure collapses (CollapseWeight/CollapsePosition) are compared at detector and termination-message level; they are not applied "
               "through impose_measure here",
               "tolerances are scalars; windows are integers >= 1 inside termination conditions (None / 0 = whole history only in direct detector calls)"]
REAL = ["mystic.collapse (all detectors, mask filters, collapsed()), mystic.mask.update_mask, mystic.termination Collapse*/Or/And/When/state/type",
        "AbstractSolver.Collapsed/Collapse/_Solve collapse loop, constraints.impose_at/impose_as/impose_bounds, tools.chain/select_params", "the four solvers"]
STUB = ["cost/penalty/constraint/callback peers", "library RNG seeding", "file open() proxy", "clocks, signal/tty"]
LEVEL_TEXT = ("seeded search over objectives, solver types, collapse-condition trees, windows, tolerances, mask formats and run modes; detectors and "
              "installed conditions compared with an executable definition at every iteration boundary; every real cost call after an applied "
              "collapse tested against the collapsed relations; bounded-liveness budget on seam crossings")
LEVEL_NOTE = ("trusts CollapseRef (a transcription of the detector docstrings) and the scripted cost's call log; histories are those simulated "
              "solvers reach; sampling, not proof")
OPS_KEY = 'none'
inf = float('inf')


# ------------------------------------------------------------------ mask encoding (plans are JSON)

def enc(v):
    if isinstance(v, (set, frozenset)): return {'__set__': sorted((enc(i) for i in v), key=repr)}
    if isinstance(v, tuple): return {'__tuple__': [enc(i) for i in v]}
    if isinstance(v, dict): return {'__dict__': [[k, enc(x)] for k, x in sorted(v.items(), key=repr)]}
    if isinstance(v, list): return [enc(i) for i in v]
    return v

def dec(v):
    if isinstance(v, dict):
        if '__set__' in v: return set(dec(i) for i in v['__set__'])
        if '__tuple__' in v: return tuple(dec(i) for i in v['__tuple__'])
        if '__dict__' in v: return dict((k, dec(x)) for k, x in v['__dict__'])
        return dict((k, dec(x)) for k, x in v.items())
    if isinstance(v, list): return [dec(i) for i in v]
    return v


# ------------------------------------------------------------------ canonical item sets

def _pair(p):
    a, b = p
    a, b = int(a), int(b)
    return (a, b) if a <= b else (b, a)

def items(kind, out):
    """mystic output / mask in any accepted format -> canonical set of items"""
    if out is None: return set()
    if kind == 'at': return set(int(i) for i in out)
    if kind == 'as': return set(_pair(p) for p in out if hasattr(p, '__len__'))
    if kind == 'weight':
        if isinstance(out, dict): return set((int(m), int(i)) for m, v in out.items() for i in v)
        if isinstance(out, (set, frozenset)): return set((int(m), int(i)) for m, i in out)
        if not len(out): return set()
        ms, ix = out
        return set((int(m), int(i)) for m, i in zip(ms, ix))
    if kind == 'position':
        if isinstance(out, dict): return set((int(m), _pair(p)) for m, v in out.items() for p in v)
        if isinstance(out, (set, frozenset)): return set((int(m), _pair(p)) for m, p in out)
        if not len(out): return set()
        ms, ps = out
        return set((int(m), _pair(p)) for m, p in zip(ms, ps))
    raise ValueError(kind)

def fmt_of(mask):
    if mask is None or isinstance(mask, dict): return 'dict'
    if isinstance(mask, (set, frozenset)): return 'set'
    return 'where'

def fmt_out(out):
    if isinstance(out, dict): return 'dict'
    if isinstance(out, (set, frozenset)): return 'set'
    return 'where'

def merged_mask(kind, mask, out):
    """the mask after `out` was applied to it (what mask.update_mask builds), computed independently"""
    if kind in ('at', 'as'):
        return set(mask or ()) | set(out)
    if kind in ('weight', 'position'):
        f = fmt_of(mask)
        its = items(kind, mask) | items(kind, out)
        if f == 'dict' or mask is None:
            d = {}
            for m, i in its: d.setdefault(m, set()).add(i)
            return d
        if f == 'set': return set(its)
        its = sorted(its)
        return (tuple(m for m, i in its), tuple(i for m, i in its))
    raise ValueError(kind)


# ------------------------------------------------------------------ CollapseRef

def window(xs, g):
    if not g: return xs                 # x[-0:] and x[None:] are the whole history
    return xs[-int(g):]

def ref_at(xs, kw, mask):
    win = window(xs, kw.get('generations', 50))
    tol = kw.get('tolerance', 0.005); target = kw.get('target')
    out = set()
    if not win: return out
    for i in range(len(win[0])):
        col = [r[i] for r in win]
        if any(v != v for v in col): continue
        if target is None: ch = max(col) - min(col)
        else:
            t = target[i] if isinstance(target, (list, tuple)) else target
            ch = max(abs(v - t) for v in col)
        if ch <= tol: out.add(i)
    return out - set(int(m) for m in (mask or ()))

def ref_as(xs, kw, mask):
    win = window(xs, kw.get('generations', 50))
    tol = kw.get('tolerance', 0.005); offset = kw.get('offset', False)
    out = set()
    if not win: return out
    dim = len(win[0])
    ints = set(int(m) for m in (mask or ()) if not hasattr(m, '__len__'))
    prs = set(_pair(m) for m in (mask or ()) if hasattr(m, '__len__'))
    for i in range(dim):
        for j in range(i + 1, dim):
            d = [abs(r[i] - r[j]) for r in win]
            if any(v != v for v in d): continue
            ch = (max(d) - min(d)) if offset else max(d)
            if not (ch <= tol): continue
            if i in ints or j in ints or (i, j) in prs: continue
            out.add((i, j))
    return out

def split_measures(rec, npts):
    """flattened product-measure parameters -> ([weights per measure], [positions per measure])"""
    w = []; p = []; o = 0
    for n in npts:
        w.append(rec[o:o + n]); p.append(rec[o + n:o + 2 * n]); o += 2 * n
    return w, p

def ref_weight(xs, npts, kw, mask):
    win = window(xs, kw.get('generations', 50)); tol = kw.get('tolerance', 0.005)
    out = set()
    if not win: return out
    W = [split_measures(r, npts)[0] for r in win]
    for m, n in enumerate(npts):
        for i in range(n):
            col = [w[m][i] for w in W]
            if any(v != v for v in col): continue
            if max(col) <= tol: out.add((m, i))
    return out - items('weight', mask)

def ref_position(xs, npts, kw, mask):
    win = window(xs, kw.get('generations', 50)); tol = kw.get('tolerance', 0.005)
    out = set()
    if not win: return out
    P = [split_measures(r, npts)[1] for r in win]
    for m, n in enumerate(npts):
        for i in range(n):
            for j in range(i + 1, n):
                d = [abs(p[m][i] - p[m][j]) for p in P]
                if any(v != v for v in d): continue
                if max(d) <= tol: out.add((m, (i, j)))
    return out - items('position', mask)

def ref_cost(xs, ys, kw):
    """per parameter: (qualifies, good sample values) or None when the sorted order is ambiguous"""
    limit = kw.get('limit', 1.0); hits = kw.get('samples', 50)
    if hits is None: hits = len(xs)
    if not xs or any((not isinstance(y, float)) or y != y for y in ys): return None
    tgt = min(ys)
    good = [(y - tgt) <= limit for y in ys]
    res = {}
    for p in range(len(xs[0])):
        col = [r[p] for r in xs]
        if any(v != v for v in col): res[p] = None; continue
        order = sorted(range(len(xs)), key=lambda r: col[r])
        amb = False
        k = 0
        while k < len(order):
            k2 = k
            while k2 + 1 < len(order) and col[order[k2 + 1]] == col[order[k]]: k2 += 1
            if len(set(good[order[q]] for q in range(k, k2 + 1))) > 1: amb = True; break
            k = k2 + 1
        if amb: res[p] = None; continue
        run = 0; best = 0
        for r in order:
            if good[r]: run = 0
            else:
                run += 1; best = max(best, run)
        res[p] = (best >= hits and hits >= 0, [col[r] for r in order if good[r]])
    return res


# ------------------------------------------------------------------ plan generation

TOLS = [1e-4, 1e-3, 1e-2, 0.1, 1.0]
WINS = [1, 2, 2, 3, 3, 5, 8]

def gen_at_mask(rng, dim):
    c = rng.random()
    if c < 0.45: return None
    if c < 0.6: return set()
    return set(rng.sample(range(dim), rng.randint(1, max(1, dim - 1))))

def gen_as_mask(rng, dim):
    c = rng.random()
    if c < 0.45 or dim < 2: return None
    if c < 0.6: return set()
    m = set()
    for _ in range(rng.randint(1, 2)):
        if rng.random() < 0.35: m.add(rng.randrange(dim))
        else:
            i, j = rng.sample(range(dim), 2)
            m.add((i, j) if rng.random() < 0.7 else (j, i))
    return m

def gen_collapse_cond(rng, dim, cost, detector_only=False):
    kinds = ['CollapseAt', 'CollapseAt', 'CollapseAs', 'CollapseAs', 'CollapseCost']
    if dim < 2: kinds = ['CollapseAt', 'CollapseCost']
    t = rng.choice(kinds)
    if t == 'CollapseAt':
        c = cost['params'].get('c', [0.0] * dim)
        tk = rng.random()
        if tk < 0.5: target = None
        elif tk < 0.75: target = rng.choice([0.0, c[rng.randrange(dim)], 0.5, 1.0])
        else: target = [c[i] if rng.random() < 0.7 else gen.r2(rng, -2, 2) for i in range(dim)]
        kw = {'target': target, 'tolerance': rng.choice(TOLS), 'generations': rng.choice(WINS)}
        return {'t': t, 'kw': kw, 'mask': enc(gen_at_mask(rng, dim))}
    if t == 'CollapseAs':
        kw = {'offset': bool(detector_only and rng.random() < 0.4), 'tolerance': rng.choice(TOLS), 'generations': rng.choice(WINS)}
        return {'t': t, 'kw': kw, 'mask': enc(gen_as_mask(rng, dim))}
    kw = {'clip': bool(detector_only and rng.random() < 0.4), 'limit': rng.choice([0.1, 1.0, 5.0, 50.0]), 'samples': rng.choice([2, 3, 4, 6, 10])}
    return {'t': t, 'kw': kw, 'mask': enc(None)}

def gen_stop(rng, solver):
    c = rng.random()
    if c < 0.5: return {'t': 'COG', 'kw': {'tolerance': rng.choice([1e-10, 1e-6, 1e-3]), 'generations': rng.choice([5, 10, 20, 30])}}
    if c < 0.75: return {'t': 'VTR', 'kw': {'tolerance': rng.choice([1e-6, 1e-2, 1.0]), 'target': rng.choice([0.0, 1.5, -2.0])}}
    if c < 0.9: return {'t': 'NCOG', 'kw': {'tolerance': 1e-4, 'generations': rng.choice([5, 10])}}
    return None

def gen_tree(rng, solver, dim, cost):
    ncol = rng.choice([1, 1, 2, 2, 3])
    cols = [gen_collapse_cond(rng, dim, cost) for _ in range(ncol)]
    # mystic keys collapses by the condition's doc: two installed conditions must not be textually identical
    seen = set(); uniq = []
    for c in cols:
        k = repr((c['t'], sorted(c['kw'].items(), key=repr)))
        if k not in seen: seen.add(k); uniq.append(c)
    cols = uniq
    stop = gen_stop(rng, solver)
    kids = []
    for c in cols:
        r = rng.random()
        if r < 0.15: kids.append({'t': 'When', 'of': [c]})
        else: kids.append(c)
    if stop is not None: kids.insert(rng.randrange(len(kids) + 1), stop)
    shape = rng.random()
    if shape < 0.08 and len(kids) == 1: return kids[0]
    if shape < 0.2 and len(kids) >= 3:
        return {'t': 'Or', 'of': [kids[0], {'t': 'Or', 'of': kids[1:]}]}
    return {'t': 'Or', 'of': kids}

def gen_detectors(rng, dim, cost, n):
    out = []
    for _ in range(n):
        d = gen_collapse_cond(rng, dim, cost, detector_only=True)
        if rng.random() < 0.15 and d['t'] in ('CollapseAt', 'CollapseAs'):
            d['kw']['generations'] = rng.choice([None, 0, 50])
        if d['t'] == 'CollapseCost' and rng.random() < 0.3:
            d['selfmask_only'] = True
        out.append(d)
    return out

KNOBS = dict(p_term=0.0, p_limits=0.0, p_midrun_set=0.0, p_solve=0.0, p_finalize=0.0, max_ops=0, p_vector=0.0,
             p_bounds=0.25, p_exotic_box=0.0, p_constraint=0.0, p_penalty=0.15, p_monitors=0.6, p_logging=0.0, max_dim=5,
             tight_modes=((None, None), (True, None), (None, True)), p_x0_outside=0.0,
             cost_models=['flat', 'flat', 'tied', 'tied', 'quant', 'quad', 'slab', 'abs'])

def gen_measure_mask(rng, kind, npts):
    f = rng.choice(['none', 'dict', 'set', 'where', 'empty_where', 'empty_set', 'empty_dict'])
    if f == 'none': return None
    if f == 'empty_where': return ()
    if f == 'empty_set': return set()
    if f == 'empty_dict': return {}
    its = set()
    for _ in range(rng.randint(1, 2)):
        m = rng.randrange(len(npts))
        if kind == 'weight': its.add((m, rng.randrange(npts[m])))
        else:
            i, j = rng.sample(range(npts[m]), 2)
            its.add((m, (i, j) if rng.random() < 0.7 else (j, i)))
    if f == 'set': return its
    if f == 'dict':
        d = {}
        for m, i in its: d.setdefault(m, set()).add(i)
        return d
    its = sorted(its)
    return (tuple(m for m, i in its), tuple(i for m, i in its))

def tree_leaves(t):
    if t['t'] in ('And', 'Or', 'When'):
        for k in t['of']:
            for l in tree_leaves(k): yield l
    else: yield t

def make_box_compatible(plan):
    """precondition (as in C01-C03): relations a collapse may impose must be compatible with the strict box.
    Fixed targets are moved into the box; if pairs may be tied the box is made uniform (x[j] = x[i] must keep
    x[j] inside side j)"""
    b = next((o for o in plan['ops'] if o['op'] == 'set' and o['what'] == 'bounds'), None)
    if b is None or not b.get('arg'): return
    lo, hi = b['arg']['lo'], b['arg']['hi']
    # an applied CollapseCost re-draws a parameter at random inside the kept intervals (clip=False), which reach to +-inf:
    # not a deterministic, box-compatible constraint -- it is installed only on runs without strict ranges
    def drop_cost(t):
        if t['t'] in ('And', 'Or', 'When'):
            kids = [drop_cost(k) for k in t['of']]
            kids = [k for k in kids if k is not None]
            if not kids: return None
            return dict(t, of=kids)
        return None if t['t'] == 'CollapseCost' else t
    t2 = drop_cost(plan['tree'])
    if t2 is None:
        plan['ops'] = [o for o in plan['ops'] if o is not b]; return
    plan['tree'] = t2
    lv = list(tree_leaves(plan['tree']))
    if any(l['t'] == 'CollapseAs' for l in lv):
        L, H = min(lo), max(hi)
        b['arg']['lo'] = lo = [L] * len(lo); b['arg']['hi'] = hi = [H] * len(hi)
        for o in plan['ops']:
            if o['what'] == 'constraint': o['arg'] = None      # a user constraint fitted to the old box may not fit the new one
        plan['ops'] = [o for o in plan['ops'] if not (o['what'] == 'constraint' and o['arg'] is None)]
    for l in lv:
        if l['t'] == 'CollapseAt' and l['kw'].get('target') is not None:
            t = l['kw']['target']
            ts = list(t) if isinstance(t, list) else [t] * len(lo)
            ts = [min(max(v, a), c) for v, a, c in zip(ts, lo, hi)]
            l['kw']['target'] = ts[0] if all(v == ts[0] for v in ts) and not isinstance(t, list) else ts
    # moving targets into the box can make two conditions textually identical (mystic keys collapses by the condition's doc)
    seen = set()
    def dedupe(t):
        if t['t'] in ('And', 'Or', 'When'):
            kids = [k for k in (dedupe(k) for k in t['of']) if k is not None]
            return dict(t, of=kids) if kids else None
        if t['t'].startswith('Collapse'):
            k = repr((t['t'], sorted(t['kw'].items(), key=repr)))
            if k in seen: return None
            seen.add(k)
        return t
    plan['tree'] = dedupe(plan['tree'])

def gen_plan(seed, tier):
    rng = sub_rng(seed, 'plan.c11')
    kind = 'measure' if rng.random() < 0.2 else 'solver'
    if kind == 'measure':
        n = rng.choice([2, 2, 3]); k = rng.choice([1, 2, 2])
        npts = [n] * k
        dim = 2 * n * k
        solver = rng.choice(['NM', 'Powell', 'DE', 'DE2'])
        # weights drift towards small values, some positions towards each other
        c = []
        for m in range(k):
            w = [rng.choice([0.0, 0.001, 0.3, 0.5]) for _ in range(n)]
            base = gen.r2(rng, -1, 1)
            p = [base if rng.random() < 0.5 else gen.r2(rng, -2, 2) for _ in range(n)]
            c += w + p
        cost = {'model': 'quad', 'params': {'a': [rng.choice([1.0, 10.0]) for _ in range(dim)], 'c': c, 'f0': 0.0}}
        plan = {'property': ID, 'seed': seed, 'tier': tier, 'kind': kind, 'solver': solver, 'dim': dim, 'npts': npts,
                'lib_seed': rng.randrange(1 << 30), 'cost': cost, 'nsteps': rng.randint(6, 30)}
        if solver in ('DE', 'DE2'):
            plan['npop'] = rng.choice([4, 6, 8])
            plan['ops'] = [{'op': 'set', 'what': 'init', 'arg': {'lo': [-1.0] * dim, 'hi': [2.0] * dim}}]
        else:
            plan['ops'] = [{'op': 'set', 'what': 'init', 'arg': {'x0': [rng.choice([0.2, 0.5, 1.0, gen.r2(rng, -1, 2)]) for _ in range(dim)]}}]
        dets = []
        for _ in range(rng.randint(2, 5)):
            which = rng.choice(['weight', 'position'])
            dets.append({'t': 'CollapseWeight' if which == 'weight' else 'CollapsePosition',
                         'kw': {'tolerance': rng.choice([1e-3, 1e-2, 0.1, 0.3] if which == 'weight' else [1e-3, 1e-2, 0.1, 0.5]),
                                'generations': rng.choice(WINS)},
                         'mask': enc(gen_measure_mask(rng, which, npts))})
        plan['detectors'] = dets
        plan['installed'] = [d for d in dets if rng.random() < 0.5][:2]
        # apply mode: the installed measure collapses are applied by solver.Collapse() (impose_measure + update_mask)
        # on top of a user constraint that keeps the weights normalised
        plan['apply'] = bool(plan['installed']) and rng.random() < 0.7
        if plan['apply']:
            seen = set(); inst = []
            for d in plan['installed']:
                k = repr((d['t'], sorted(d['kw'].items())))
                if k not in seen: seen.add(k); inst.append(d)
            plan['installed'] = inst
            plan['ops'].append({'op': 'set', 'what': 'constraint', 'arg': {'family': 'measure_norm', 'form': 'pure', 'params': {'npts': npts}}})
            plan['max_rounds'] = rng.randint(2, 6)
        return plan
    big = sub_rng(seed, 'plan.c11.bigdim').random() < 0.1
    # (ten or so parameters, most of them flat or tied: collapse sets with indices of 8 and more, several indices at a time, each fixed
    # at its own value)
    plan = solverplan.gen_solver_plan(seed, tier, ID, KNOBS if not big else dict(KNOBS, min_dim=9, max_dim=11, p_bounds=0.1,
                                                                                  cost_models=['flat', 'flat', 'tied', 'quant']))
    plan['kind'] = 'solver'
    solver = plan['solver']; dim = plan['dim']
    if 'npop' in plan: plan['npop'] = max(plan['npop'], 6)      # every strategy needs up to 5 distinct other members
    plan['ops'] = [o for o in plan['ops'] if o['op'] == 'set' and o['what'] != 'objective']
    plan['tree'] = gen_tree(rng, solver, dim, plan['cost'])
    make_box_compatible(plan)
    plan['limits'] = [rng.choice([20, 30, 40, 60, 80]), rng.choice([None, None, 400, 1500])]
    plan['mode'] = rng.choice(['solve', 'solve', 'manual', 'manual_collapsed'])
    plan['max_rounds'] = rng.randint(2, 8)
    plan['detectors'] = gen_detectors(rng, dim, plan['cost'], rng.randint(1, 4))
    plan['save'] = plan['mode'] == 'solve' and plan['limits'][0] <= 40 and rng.random() < 0.25     # a restart file every generation; restored afterwards
    if rng.random() < 0.12:
        # two solvers (different objectives, different starts) are given the SAME termination object and stepped in turn:
        # what a condition reports for one solver is computed from that solver's own history
        plan['mode'] = 'shared'; plan['save'] = False
        plan['cost2'] = gen.gen_cost(rng, dim, ['quad', 'rosen', 'abs', 'flat', 'tied'])
        plan['x02'] = gen.gen_x0(rng, dim)
        plan['order'] = [rng.randrange(2) for _ in range(2 * plan['limits'][0])]
    if big:
        # (ten parameters: detectors over all pairs at every step, and a restart file per generation, make long runs slow)
        plan['save'] = False
        plan['limits'][0] = min(plan['limits'][0], 15 if solver == 'Powell' else 25)
        plan['detectors'] = plan['detectors'][:2]
    r6 = sub_rng(seed, 'plan.c11.twice')
    if plan['mode'] in ('solve', 'manual', 'manual_collapsed') and r6.random() < 0.15 and not big:
        plan['twice'] = True
        plan['cost2'] = gen.gen_cost(r6, dim, ['quad', 'flat', 'tied', 'flat', 'tied'])
        plan['x02'] = gen.gen_x0(r6, dim)
    r5 = sub_rng(seed, 'plan.c11.late')
    if plan['mode'] in ('solve', 'manual', 'manual_collapsed') and r5.random() < 0.2:
        plan['late'] = r5.randint(2, 12); plan['save'] = False
    plan['seed'] = seed
    return plan


# ------------------------------------------------------------------ building mystic objects

def build_cond(spec):
    import mystic.termination as mt
    t = spec['t']
    if t in ('And', 'Or', 'When'):
        return getattr(mt, t)(*[build_cond(s) for s in spec['of']])
    if t.startswith('Collapse'):
        kw = dict(spec['kw'])
        return getattr(mt, t)(mask=dec(spec['mask']), **kw)
    return engine.build_term(spec)

DETECTOR = {'CollapseAt': ('collapse_at', 'at'), 'CollapseAs': ('collapse_as', 'as'), 'CollapseCost': ('collapse_cost', 'cost'),
            'CollapseWeight': ('collapse_weight', 'weight'), 'CollapsePosition': ('collapse_position', 'position')}

def leaves(cond):
    """the Collapse* leaf conditions of a live mystic termination (tuples are compounds)"""
    if isinstance(cond, tuple):
        for c in cond:
            for l in leaves(c): yield l
    else:
        d = getattr(cond, '__doc__', '') or ''
        if d.startswith('Collapse'): yield cond

def parse_doc(doc):
    """'CollapseAt with {...}' -> ('CollapseAt', kwargs)"""
    name, rest = doc.split(' with ', 1)
    return name, eval(rest, {'np': numpy, 'inf': inf, 'nan': float('nan'), 'array': numpy.array})

def nomask(kw):
    return tuple(sorted(((k, canon(v)) for k, v in kw.items() if k != 'mask'), key=repr))


# ------------------------------------------------------------------ the oracle

class CollapseOracle(object):
    P = ID
    def __init__(self, plan):
        self.plan = plan
        self.relations = []      # dicts: from_eval, kind, ...
        self.applied = {}        # (type, nomask kw) -> canonical items applied so far
        self.checked = 0
        self.n_applied = 0
        self.fired = False
        self.npts = plan.get('npts')

    # ---- detectors and installed conditions vs the reference, at every snapshot
    def on_step(self, h, s):
        self.compare(h, s, 'iteration_%d' % s['_step_no'])
        self.scan(h)
    def after_op(self, h, op, res):
        if h.started and op['op'] in ('step', 'solve'):
            self.compare(h, h.snap(), 'after_' + op['op'])
            self.scan(h)

    def call_detector(self, h, name, stepmon, kw, mask, when):
        import mystic.collapse as ct
        try:
            return True, getattr(ct, name)(stepmon, mask=mask, **kw)
        except Exception as e:
            return False, e

    def compare(self, h, s, when):
        sm = s['stepmon']
        xs = sm['x']; ys = sm['y']
        if not xs: return
        solver = h.solver
        mon = solver._stepmon
        for d in self.plan.get('detectors', []):
            self.compare_one(h, d['t'], dict(d['kw']), dec(d['mask']), xs, ys, mon, when, 'forest', d.get('selfmask_only'))
        # installed conditions: the message round trip
        import mystic.collapse as ct
        nhist = len(s['energy_history'])
        for leaf in leaves(solver._termination):
            name, kw = parse_doc(leaf.__doc__)
            mask = kw.pop('mask', None)
            try:
                msg = leaf(solver, True)
            except Exception as e:
                h.violate(self.P, 'condition_raised@%s' % name, detail='%s: %s raised %r' % (when, leaf.__doc__, e), cond=name)
                continue
            win = kw.get('samples') if name == 'CollapseCost' else kw.get('generations')
            got = ct.collapsed(msg) if msg else None
            if got is not None and list(got.keys()) != [leaf.__doc__]:
                h.violate(self.P, 'collapse_message_round_trip', detail='%s: message %r parses to keys %r, condition doc is %r'
                          % (when, msg, list(got.keys()), leaf.__doc__), cond=name)
                continue
            out = got[leaf.__doc__] if got else None
            kind = DETECTOR[name][1]
            if isinstance(win, int) and nhist <= win:
                if out:
                    h.violate(self.P, 'detector_ne_definition@%s' % name, detail='%s: %s reported %r with only %d generations recorded'
                              % (when, leaf.__doc__, out, nhist), cond=name, which='installed')
                continue
            if kind == 'cost':
                continue            # covered through the forest (same function, same monitor)
            want = self.reference(kind, xs, kw, mask)
            have = items(kind, out) if out else set()
            if bool(msg) != bool(have) or have != want:
                h.violate(self.P, 'detector_ne_definition@%s' % name, detail='%s: installed %s reports %r, definition gives %r (last records %r)'
                          % (when, leaf.__doc__, sorted(have), sorted(want), xs[-3:]), cond=name, which='installed')
            if have: self.fired = True

    def reference(self, kind, xs, kw, mask):
        if kind == 'at': return ref_at(xs, kw, mask)
        if kind == 'as': return ref_as(xs, kw, mask)
        if kind == 'weight': return ref_weight(xs, self.npts, kw, mask)
        if kind == 'position': return ref_position(xs, self.npts, kw, mask)
        raise ValueError(kind)

    def compare_one(self, h, tname, kw, mask, xs, ys, mon, when, which, selfmask_only=False):
        name, kind = DETECTOR[tname]
        if kind == 'as' and len(xs[0]) < 2: return
        ok, out = self.call_detector(h, name, mon, kw, mask, when)
        tags = {'cond': tname, 'which': which, 'mask': fmt_of(mask) if mask is not None else 'none'}
        if not ok:
            h.violate(self.P, 'detector_raised@%s' % tname, detail='%s: %s(%r, mask=%r) raised %r' % (when, name, kw, mask, out), **tags)
            return
        if kind == 'cost':
            self.compare_cost(h, kw, mask, xs, ys, mon, out, when, tags)
            return
        have = items(kind, out)
        want = self.reference(kind, xs, kw, mask)
        if have: self.fired = True; h.run.probe('c11.fired.%s' % kind)
        h.run.probe('c11.compared.%s' % kind)
        if have != want:
            h.violate(self.P, 'detector_ne_definition@%s' % tname, detail='%s: %s(%r, mask=%r) -> %r, definition gives %r (last records %r)'
                      % (when, name, kw, mask, sorted(have), sorted(want), xs[-3:]), **tags)
            return
        if kind in ('weight', 'position') and mask is not None and fmt_out(out) != fmt_of(mask) and len(out):
            h.violate(self.P, 'detector_output_format@%s' % tname, detail='%s: %s with a %s-format mask returned %r'
                      % (when, name, fmt_of(mask), out), **tags)
            return
        # own output as mask: nothing new
        if have:
            h.run.probe('c11.selfmask.%s' % kind)
            m2 = merged_mask(kind, mask, out)
            ok2, out2 = self.call_detector(h, name, mon, kw, m2, when)
            if not ok2:
                h.violate(self.P, 'detector_raised@%s' % tname, detail='%s: %s with its own output merged into the mask (%r) raised %r'
                          % (when, name, m2, out2), **tags)
            elif items(kind, out2):
                h.violate(self.P, 'detector_not_idempotent_under_own_mask', detail='%s: %s(%r) reported %r; with that merged into the mask '
                          '(%r) it still reports %r' % (when, name, kw, out, m2, out2), **tags)
            if mask is None or not mask:
                ok3, out3 = self.call_detector(h, name, mon, kw, out, when)
                if ok3 and items(kind, out3) & have:
                    h.violate(self.P, 'detector_not_idempotent_under_own_mask', detail='%s: %s(%r) reported %r; fed back as mask it reports %r'
                              % (when, name, kw, out, out3), **tags)
                elif not ok3:
                    h.violate(self.P, 'detector_raised@%s' % tname, detail='%s: %s fed its own output %r as mask raised %r'
                              % (when, name, out, out3), **tags)

    def compare_cost(self, h, kw, mask, xs, ys, mon, out, when, tags):
        ref = ref_cost(xs, ys, kw)
        h.run.probe('c11.compared.cost')
        if ref is None: return
        if out: self.fired = True; h.run.probe('c11.fired.cost')
        for p, r in ref.items():
            if r is None: h.run.probe('c11.cost.ambiguous'); continue
            q, goods = r
            rep = p in out
            if rep and not q:
                h.violate(self.P, 'detector_ne_definition@CollapseCost', detail='%s: collapse_cost(%r) reports parameter %d (%r) but its sorted '
                          'samples contain no run of >= samples consecutive costs more than limit above the minimum' % (when, kw, p, out[p]), **tags)
                return
            if q and not rep and not kw.get('clip'):
                h.violate(self.P, 'detector_ne_definition@CollapseCost', detail='%s: collapse_cost(%r) does not report parameter %d although its '
                          'sorted samples contain such a run' % (when, kw, p), **tags)
                return
            if rep and not kw.get('clip'):
                ivs = out[p]
                for v in goods:
                    if not any(lo <= v <= hi for lo, hi in ivs):
                        h.violate(self.P, 'collapse_cost_excludes_good_sample', detail='%s: collapse_cost(%r) keeps %r for parameter %d, which '
                                  'excludes the sample %r whose cost is within limit of the minimum' % (when, kw, ivs, p, v), **tags)
                        return
        if out:
            import mystic.collapse as ct
            try:
                out2 = ct.collapse_cost(mon, mask=out, **kw)
            except Exception as e:
                h.violate(self.P, 'detector_raised@CollapseCost', detail='%s: collapse_cost fed its own output %r as mask raised %r' % (when, out, e), **tags)
                return
            if out2:
                deg = any(float(a) == float(b) for ivs in out.values() for a, b in ivs)
                h.violate(self.P, 'detector_not_idempotent_under_own_mask', detail='%s: collapse_cost(%r) -> %r; fed back as mask -> %r'
                          % (when, kw, out, out2), degenerate_interval=deg, **tags)

    # ---- applied collapses
    def wrap(self, h):
        solver = h.solver
        orig = solver.Collapse
        oracle = self
        import mystic.termination as mt
        def Collapse(disp=False):
            run = h.run
            was = run.observing
            run.observing = True
            try:
                before_state = mt.state(solver._termination)
                best = tuple(float(v) for v in solver.bestSolution)
                # what is satisfied right now (the message Solve's loop stashed, else a fresh evaluation without side effects)
                stop_msg = getattr(solver, '__stop__', None)
                if stop_msg is None: stop_msg = h.peek_term(solver)
            finally:
                run.observing = was
            out = orig(disp)
            if out and stop_msg:
                others = [part for part in str(stop_msg).split('; ') if part and not part.startswith('Collapse')]
                if others:
                    # documented: a collapse is applied unless a 'stop' termination is satisfied at the same time
                    h.violate(ID, 'collapse_applied_although_stop_satisfied', detail='Collapse() applied %r while the stop condition(s) %r '
                              'were satisfied as well' % (sorted(out), others), cond=sorted(out)[0].split()[0])
            run.observing = True
            try:
                oracle.note_collapse(h, out, before_state, best, mt.state(solver._termination))
            finally:
                run.observing = was
            return out
        solver.Collapse = Collapse

    def flat_state(self, st):
        """state() of a (nested) termination -> {doc: kwargs} for Collapse* leaves"""
        out = {}
        for k, v in st.items():
            if isinstance(v, dict) and k.startswith('Collapse'): out[k] = v
        return out

    def note_collapse(self, h, out, before, best, after):
        self.scan(h)             # evaluations made before this collapse are judged by the relations in force so far
        if not out: return
        self.n_applied += 1
        self.fired = True
        h.run.probe('c11.collapse_applied')
        h.run.trace.append(('collapse', len(h.run.evals), canon(sorted((k, canon(v)) for k, v in out.items()))))
        import os
        if os.environ.get('VERIF_DEBUG'):
            import sys
            sys.stderr.write('COLLAPSE at eval %d: %r\n' % (len(h.run.evals), out))
        n0 = len(h.run.evals)
        B = self.flat_state(before); A = self.flat_state(after)
        for doc, col in out.items():
            name, kw = parse_doc(doc)
            kind = DETECTOR[name][1]
            mask0 = kw.get('mask')
            key = (name, nomask(kw))
            tags = {'cond': name}
            # (1) nothing already masked / applied is reported again
            if kind in ('at', 'as'):
                its = items(kind, col)
                if kind == 'as':
                    ints = set(int(m) for m in (mask0 or ()) if not hasattr(m, '__len__'))
                    old = items('as', mask0) | set(p for p in its if p[0] in ints or p[1] in ints)
                else:
                    old = items(kind, mask0)
                again = its & (old | self.applied.get(key, set()))
                if again:
                    h.violate(self.P, 'collapse_reported_twice', detail='%s reported %r again (mask was %r, applied before: %r)'
                              % (doc, sorted(again), mask0, sorted(self.applied.get(key, ()))), **tags)
                self.applied.setdefault(key, set()).update(its)
                # (2) the mask grew by exactly what was applied
                new = [v for k_, v in A.items() if k_.startswith(name) and nomask(v) == nomask(kw)]
                if len(new) != 1:
                    h.violate(self.P, 'mask_not_grown', detail='after applying %r the termination holds %d conditions of that kind/settings'
                              % (doc, len(new)), **tags)
                else:
                    m1 = new[0].get('mask')
                    want = set(canon(i) for i in (mask0 or ())) | set(canon(i) for i in col)
                    have = set(canon(i) for i in (m1 or ()))
                    if kind == 'as':
                        want = set((tuple(sorted(i)) if isinstance(i, tuple) else i) for i in want)
                        have = set((tuple(sorted(i)) if isinstance(i, tuple) else i) for i in have)
                    if have != want:
                        h.violate(self.P, 'mask_not_grown', detail='%s applied %r on mask %r: the new mask is %r, expected %r'
                                  % (doc, col, mask0, m1, sorted(want, key=repr)), **tags)
            if kind in ('weight', 'position'):
                its = items(kind, col)
                old = items(kind, mask0)
                again = its & (old | self.applied.get(key, set()))
                if again:
                    h.violate(self.P, 'collapse_reported_twice', detail='%s reported %r again (mask was %r, applied before: %r)'
                              % (doc, sorted(again), mask0, sorted(self.applied.get(key, ()))), **tags)
                self.applied.setdefault(key, set()).update(its)
                new = [v for k_, v in A.items() if k_.startswith(name) and nomask(v) == nomask(kw)]
                if len(new) != 1:
                    h.violate(self.P, 'mask_not_grown', detail='after applying %r the termination holds %d conditions of that kind/settings'
                              % (doc, len(new)), **tags)
                else:
                    m1 = new[0].get('mask')
                    try: have = items(kind, m1)
                    except Exception as e: have = e
                    if have != (old | its):
                        h.violate(self.P, 'mask_not_grown', detail='%s applied %r on mask %r: the new mask is %r, expected the items %r'
                                  % (doc, col, mask0, m1, sorted(old | its)), fmt=fmt_of(mask0) if mask0 is not None else 'none', **tags)
                    elif mask0 and fmt_of(m1) != fmt_of(mask0):
                        h.violate(self.P, 'mask_not_grown', detail='%s applied %r on the %s-format mask %r: the new mask %r changed format'
                                  % (doc, col, fmt_of(mask0), mask0, m1), fmt=fmt_of(mask0), **tags)
                npts = self.npts
                offs = [2 * sum(npts[:m]) for m in range(len(npts))]
                for it in sorted(its):
                    if kind == 'weight':
                        m, i = it
                        self.relations.append({'kind': 'w0', 'i': offs[m] + i, 'm': m, 'from': n0, 'doc': doc})
                    else:
                        m, (i, j) = it
                        self.relations.append({'kind': 'ptie', 'i': offs[m] + npts[m] + i, 'j': offs[m] + npts[m] + j, 'm': m, 'from': n0, 'doc': doc})
            # (3) relations for the evaluations that follow
            if kind == 'at':
                t = kw.get('target')
                for i in items('at', col):
                    v = best[i] if t is None else (float(t[i]) if isinstance(t, (list, tuple)) else float(t))
                    self.relations.append({'kind': 'at', 'i': i, 'v': v, 'from': n0, 'doc': doc})
            elif kind == 'as':
                if kw.get('offset'): continue
                for (i, j) in items('as', col):
                    self.relations.append({'kind': 'as', 'i': i, 'j': j, 'from': n0, 'doc': doc})
            elif kind == 'cost':
                for p, ivs in col.items():
                    ivs = [tuple(iv) for iv in (ivs if hasattr(ivs[0], '__len__') else [ivs])]
                    self.relations.append({'kind': 'in', 'i': int(p), 'ivs': [(float(a), float(b)) for a, b in ivs], 'from': n0, 'doc': doc,
                                           'key': key})
        # unrelated conditions keep their masks
        for k_, v in B.items():
            if k_ in out: continue
            if k_ not in A:
                h.violate(self.P, 'mask_not_grown', detail='condition %r disappeared / changed when %r was applied' % (k_, list(out)), cond=k_.split()[0])

    @staticmethod
    def _finder(as_rels):
        parent = {}
        def find(a):
            while parent.get(a, a) != a: a = parent[a]
            return a
        for r in as_rels:
            a, b = find(r['i']), find(r['j'])
            if a != b: parent[b] = a
        return find

    def check_point(self, x, upto):
        if any(v != v for v in x): return None      # a nan coordinate satisfies no equality; not this property's business
        return self._check_point(x, upto)

    RANK = {'at': 0, 'as': 1, 'in': 2, 'w0': 3, 'ptie': 3}
    NAMES = {frozenset(('at', 'as')): 'fixed_index_tied', frozenset(('as', 'in')): 'tied_index_bounded',
             frozenset(('at', 'in')): 'fixed_index_bounded', frozenset(('as',)): 'ties_from_several_collapses'}

    def excuse(self, r, rels):
        """mystic composes one constraint per applied collapse: the conditions of the newest Collapse() call run first (fixes,
        then ties, then bounds), those of earlier calls after them.  A relation that is violated is *excused* (-> the name of
        the listed finding) only if, in that documented order, a relation of another collapse that runs LATER writes one of
        its parameters; if nothing later touches them the relation had to hold and there is no excuse (-> None)."""
        vr = {r['i']} | ({r['j']} if 'j' in r else set())
        kr = (-r['from'], self.RANK[r['kind']])
        for q in rels:
            if q is r or q['kind'] in ('w0', 'ptie') or r['kind'] in ('w0', 'ptie'): continue
            kq = (-q['from'], self.RANK[q['kind']])
            later = kq > kr or (kq == kr and q['doc'] != r['doc'])
            if not later: continue
            wq = {q['i']} | ({q['j']} if 'j' in q else set())
            if wq & vr:
                name = self.NAMES.get(frozenset((r['kind'], q['kind'])))
                if name: return name
                # bounds collapsed by two DIFFERENT installed CollapseCost conditions (each nests only within its own mask)
                if r['kind'] == q['kind'] == 'in' and r.get('key') != q.get('key'): return 'bounds_from_several_conditions'
        return None

    def _check_point(self, x, upto):
        """-> None or (relation, why, conflict)"""
        rels = [r for r in self.relations if r['from'] <= upto]
        as_rels = [r for r in rels if r['kind'] == 'as']
        at_rels = [r for r in rels if r['kind'] == 'at']
        in_rels = [r for r in rels if r['kind'] == 'in']
        for r in as_rels:
            if x[r['i']] != x[r['j']]:
                return r, 'x[%d]=%r != x[%d]=%r' % (r['i'], x[r['i']], r['j'], x[r['j']]), self.excuse(r, rels)
        for r in in_rels:
            v = x[r['i']]
            if not any(a <= v <= b for a, b in r['ivs']):
                c = self.excuse(r, rels)
                if c is None and any(1e300 < abs(e) < inf for iv in r['ivs'] for e in iv): c = 'edge_beyond_1e300'
                return r, 'x[%d]=%r is outside the collapsed bounds %r' % (r['i'], v, r['ivs']), c
        pt = [r for r in rels if r['kind'] == 'ptie']
        pfind = self._finder(pt)
        for r in rels:
            if r['kind'] == 'w0' and x[r['i']] != 0.0:
                # every weight of that measure collapsed: no normalised measure satisfies that, nothing to demand
                m = r['m']; npts = self.npts; o = 2 * sum(npts[:m])
                zero = set(q['i'] for q in rels if q['kind'] == 'w0')
                # (a position tie hands the weight of its second point to its first: the second point's weight is zero by definition)
                zero |= set(q['j'] - npts[q['m']] for q in rels if q['kind'] == 'ptie')
                if all((o + k) in zero for k in range(npts[m])): continue
                # ... likewise when every OTHER weight of the measure is already zero (masked by the user or collapsed)
                if all(x[o + k] == 0.0 for k in range(npts[m]) if (o + k) != r['i']): continue
                # a position collapse applied by an EARLIER Collapse() call runs after this one and moves the weight of its
                # second point onto its first: it can refill a weight that this collapse has just zeroed
                npos = o + npts[m]
                loc = r['i'] - o
                c = 'weight_refilled_by_tie' if any(q['kind'] == 'ptie' and q['m'] == m and q['from'] < r['from'] and
                                                   loc in (q['i'] - npos, q['j'] - npos) for q in rels) else None
                return r, 'weight x[%d]=%r is not zero' % (r['i'], x[r['i']]), c
            if r['kind'] == 'ptie' and x[r['i']] != x[r['j']]:
                g = pfind(r['i']); batch = (r['from'], r['doc'])
                c = 'ties_from_several_collapses' if any(pfind(q['i']) == g and (q['from'], q['doc']) != batch for q in pt) else None
                return r, 'positions x[%d]=%r != x[%d]=%r' % (r['i'], x[r['i']], r['j'], x[r['j']]), c
        by_i = {}
        for r in at_rels: by_i.setdefault(r['i'], []).append(r)
        for i, qs in sorted(by_i.items()):
            # two installed conditions may fix the same index at different values (a target and 'where it is now'):
            # only one can hold, and which one is the order of the conditions -- either is accepted
            vals = set(q['v'] for q in qs)
            if x[i] not in vals:
                return qs[-1], 'x[%d]=%r != fixed value %r' % (i, x[i], sorted(vals)), self.excuse(qs[-1], rels)
        return None

    def scan(self, h):
        ev = h.run.evals
        if self.relations:
            for k in range(self.checked, len(ev)):
                bad = self.check_point(ev[k].x, k)
                if bad:
                    r, why = bad[0], bad[1]
                    h.violate(self.P, 'evaluation_breaks_collapsed_relation', detail='cost call #%d at %r: %s (collapse %s applied before call #%d)'
                              % (ev[k].n, ev[k].x, why, r['doc'][:80], r['from'] + 1), cond=r['doc'].split()[0], rel=r['kind'],
                              conflict=(bad[2] if len(bad) > 2 else None))
                    break
        self.checked = len(ev)

    def finish(self, h):
        self.scan(h)
        if not self.relations or not h.started: return
        s = h.snap()
        be = s['bestEnergy']
        if not (isinstance(be, float) and be == be and abs(be) != inf): return
        bs = tuple(s['bestSolution'])
        bad = self.check_point(bs, len(h.run.evals))
        if bad:
            r, why = bad[0], bad[1]
            last = max(q['from'] for q in self.relations)
            stale = not any(e.x == bs for e in h.run.evals[last:])
            h.violate(self.P, 'final_breaks_collapsed_relation', detail='final solution %r (energy %r): %s (collapse %s)'
                      % (bs, be, why, r['doc'][:80]), cond=r['doc'].split()[0], rel=r['kind'], stale_best=stale,
                      conflict=(bad[2] if len(bad) > 2 else None))


# ------------------------------------------------------------------ execution

class H11(engine.Harness):
    def make_monitor(self, arg):
        if self.plan.get('npts'):
            import mystic.monitors as mm
            return mm.Monitor(npts=tuple(self.plan['npts']))
        return engine.Harness.make_monitor(self, arg)


def run_plan(plan):
    run = env.Run(plan['seed'], budget=400000)
    env.begin(run)
    run.fs = simfs.SimFS(run); run.fs.plant()
    orc = CollapseOracle(plan)
    h = None
    try:
        with engine.patched_world(run):
            h = H11(run, plan, [orc])
            s = h.build()
            for op in plan['ops']: h.do(op)
            try:
                if plan['kind'] == 'measure':
                    h.do({'op': 'set', 'what': 'stepmon', 'arg': {'kind': 'Monitor'}})
                    if plan.get('installed'):
                        s.SetTermination(build_cond({'t': 'Or', 'of': [{'t': 'VTR', 'kw': {'tolerance': -1.0, 'target': 0.0}}] + plan['installed']}))
                    else:
                        s.SetTermination(build_cond({'t': 'VTR', 'kw': {'tolerance': -1.0, 'target': 0.0}}))
                    s.SetEvaluationLimits(plan['nsteps'] + 5, None)
                    if plan.get('apply'): orc.wrap(h)
                    rounds = 0
                    for i in range(plan['nsteps']):
                        r = h.do({'op': 'step', 'n': 1})
                        if r.get('exc'):
                            if orc.n_applied:
                                h.violate(ID, 'solve_raised', detail='Step after %d applied measure collapses raised %s: %s'
                                          % (orc.n_applied, r['exc'], r.get('exc_msg')), exc=r['exc'], collapses=orc.n_applied)
                            break
                        msg = (r.get('ret') or (None,))[-1]
                        if msg and plan.get('apply'):
                            try:
                                out = s.Collapse()
                            except Exception as e:
                                h.violate(ID, 'solve_raised', detail='Collapse() raised %s: %s' % (type(e).__name__, e), exc=type(e).__name__,
                                          collapses=orc.n_applied)
                                break
                            rounds += 1
                            if not out or rounds >= plan['max_rounds']: break
                        elif msg: break
                else:
                    late = plan.get('late')
                    if late:
                        # the collapse conditions are installed between two Steps of a run that is under way: the next Step's
                        # check BEFORE stepping finds the collapse (the solver is live, nothing has been finalized)
                        s.SetTermination(build_cond({'t': 'VTR', 'kw': {'tolerance': -1.0, 'target': 0.0}}))
                        s.SetEvaluationLimits(plan['limits'][0], plan['limits'][1])
                        orc.wrap(h)
                        for i in range(late):
                            r = h.do({'op': 'step', 'n': 1})
                            if r.get('exc') or (r.get('ret') or (None,))[-1]: break
                        run.probe('c11.termination_installed_midrun')
                    s.SetTermination(build_cond(plan['tree']))
                    s.SetEvaluationLimits(plan['limits'][0], plan['limits'][1])
                    if not late: orc.wrap(h)
                    if plan.get('save'):
                        s.SetSaveFrequency(1, run.fs.path('c11-restart.pkl'))
                    if plan['mode'] == 'shared':
                        run_shared(plan, run, h, orc)
                    elif plan['mode'] == 'solve':
                        r = h.do({'op': 'solve'})
                        if r.get('exc'):
                            h.violate(ID, 'solve_raised', detail='Solve with %r raised %s: %s' % (plan['tree'], r['exc'], r.get('exc_msg')),
                                      exc=r['exc'], collapses=orc.n_applied)
                    else:
                        rounds = 0
                        for i in range(400):
                            r = h.do({'op': 'step', 'n': 1})
                            if r.get('exc'):
                                h.violate(ID, 'solve_raised', detail='Step with %r raised %s: %s' % (plan['tree'], r['exc'], r.get('exc_msg')),
                                          exc=r['exc'], collapses=orc.n_applied)
                                break
                            msg = (r.get('ret') or (None,))[-1]
                            if msg:
                                if plan['mode'] == 'manual_collapsed':
                                    c0 = s.Collapsed()
                                    c1 = s.Collapsed(info=True)
                                    if bool(c0) != bool(c1):
                                        h.violate(ID, 'collapse_message_round_trip', detail='Collapsed() -> %r but Collapsed(info=True) -> %r' % (c0, c1))
                                try:
                                    out = s.Collapse()
                                except Exception as e:
                                    h.violate(ID, 'solve_raised', detail='Collapse() raised %s: %s' % (type(e).__name__, e), exc=type(e).__name__,
                                              collapses=orc.n_applied)
                                    break
                                rounds += 1
                                if not out or rounds >= plan['max_rounds']: break
                        else:
                            h.violate(ID, 'solve_did_not_return', detail='manual collapse loop still running after 400 Step calls')
            except env.SimHang as e:
                h.violate(ID, 'solve_did_not_return', detail=str(e), collapses=orc.n_applied)
            if plan.get('save') and plan['kind'] == 'solver':
                restored_state(h, orc, run)
            if plan.get('twice') and plan['kind'] == 'solver':
                h.finish(); h.oracles = []          # the first solver's run is judged here: what follows are another solver's evaluations
                try:
                    run_second(plan, run, h)
                except env.SimHang as e:
                    h.violate(ID, 'solve_did_not_return', detail='second solver: ' + str(e), second=True)
            viol = h.finish()
            final = h.snap()
    finally:
        run.fs.cleanup()
        env.end()
    tr = repr(canon(run.trace)) + repr(canon(final)) + repr(len(run.evals))
    return {'violations': viol, 'digest': hashlib.sha1(tr.encode()).hexdigest(), 'probes': run.probes, 'fired': run.fired,
            'sim_s': 0.0, 'nontrivial': bool(orc.fired), 'stats': {'cost_calls': len(run.evals), 'steps': h.steps_executed,
            'collapses_applied': orc.n_applied, 'relations': len(orc.relations), 'seam_crossings': run.ncross}}


def run_shared(plan, run, h, orc):
    """second solver sharing the first one's termination object; stepped in a seeded order; no collapse is applied"""
    plan2 = dict(plan); plan2['cost'] = plan['cost2']; plan2['detectors'] = []
    orc2 = CollapseOracle(plan2)
    h2 = H11(run, plan2, [orc2])
    lib = (_random_state(), )
    import mystic.solvers as ms
    cls = getattr(ms, engine.SOLVERS[plan['solver']])
    s2 = cls(plan['dim'], plan.get('npop', 4)) if plan['solver'] in ('DE', 'DE2') else cls(plan['dim'])
    h2.solvers['orig'] = s2
    h2.cost = env.SimCost(plan2['cost'])
    h2.tags.update(solver=plan['solver'], cost=plan2['cost']['model'], shared='second')
    if plan['solver'] in ('DE', 'DE2'): s2.SetRandomInitialPoints([-3.0] * plan['dim'], [3.0] * plan['dim'])
    else: s2.SetInitialPoints(list(plan['x02']))
    s2.SetTermination(h.solver._termination)          # the very same object
    s2.SetEvaluationLimits(plan['limits'][0], plan['limits'][1])
    hs = (h, h2); done = [False, False]
    run.probe('c11.shared_termination_runs')
    for who in plan['order']:
        if done[who]: who = 1 - who
        if done[who]: break
        hh = hs[who]
        run.on_callback = hh._on_callback; run.pre_step = hh._pre_step
        run.owner = 'shared%d' % who
        r = hh.do({'op': 'step', 'n': 1})
        if r.get('exc') or (r.get('ret') or (None,))[-1]: done[who] = True
    run.on_callback = h._on_callback; run.pre_step = h._pre_step
    h.violations.extend(h2.violations)


def run_second(plan, run, h):
    """a second solver later in the same program: another objective and start, its own conditions -- built separately, textually
    identical to the first solver's, masks included.  What it reports, applies and masks is judged exactly like the first one's"""
    plan2 = dict(plan); plan2['cost'] = plan['cost2']; plan2['detectors'] = []
    orc2 = CollapseOracle(plan2)
    h2 = H11(run, plan2, [orc2])
    import mystic.solvers as ms
    cls = getattr(ms, engine.SOLVERS[plan['solver']])
    s2 = cls(plan['dim'], plan.get('npop', 4)) if plan['solver'] in ('DE', 'DE2') else cls(plan['dim'])
    h2.solvers['orig'] = s2
    h2.cost = env.SimCost(plan2['cost'])
    h2.tags.update(solver=plan['solver'], cost=plan2['cost']['model'], second=True)
    if plan['solver'] in ('DE', 'DE2'): s2.SetRandomInitialPoints([-3.0] * plan['dim'], [3.0] * plan['dim'])
    else: s2.SetInitialPoints(list(plan['x02']))
    s2.SetTermination(build_cond(plan['tree']))
    s2.SetEvaluationLimits(plan['limits'][0], plan['limits'][1])
    orc2.wrap(h2)
    run.probe('c11.second_solver_runs')
    run.on_callback = h2._on_callback; run.pre_step = h2._pre_step
    run.owner = 'second'
    try:
        r = h2.do({'op': 'solve'})
        if r.get('exc'):
            h2.violate(ID, 'solve_raised', detail='Solve of a second solver with %r raised %s: %s' % (plan['tree'], r['exc'], r.get('exc_msg')),
                       exc=r['exc'], collapses=orc2.n_applied)
        h2.finish()
    finally:
        run.on_callback = h._on_callback; run.pre_step = h._pre_step
    h.violations.extend(h2.violations)


def _random_state():
    import random as _r
    return _r.getstate()


def restored_state(h, orc, run):
    """a new process restores the last restart file of the run: what it reports as collapsed must not be something its own
    termination already masks, and asking it to apply collapses must work"""
    import os
    from mystic.solvers import LoadSolver
    path = run.fs.path('c11-restart.pkl')
    if not os.path.exists(path): return
    run.observing = True
    try:
        try:
            s2 = LoadSolver(path)
        except Exception as e:
            h.violate(ID, 'solve_raised', detail='LoadSolver of the last restart file raised %s: %s' % (type(e).__name__, str(e)[:160]),
                      exc=type(e).__name__, collapses=orc.n_applied, restored=True)
            return
        run.probe('c11.restored_from_restart_file')
        try:
            rep = s2.Collapsed(info=True)
        except Exception as e:
            h.violate(ID, 'solve_raised', detail='Collapsed(info=True) on the restored solver raised %s: %s' % (type(e).__name__, str(e)[:160]),
                      exc=type(e).__name__, collapses=orc.n_applied, restored=True)
            return
        import mystic.termination as mt
        live = {}
        for leaf in leaves(s2._termination):
            name, kw = parse_doc(leaf.__doc__)
            live[(name, nomask(kw))] = kw.get('mask')
        for doc, col in (rep or {}).items():
            name, kw = parse_doc(doc)
            kind = DETECTOR[name][1]
            if kind == 'cost': continue
            cur = live.get((name, nomask(kw)), kw.get('mask'))
            again = items(kind, col) & items(kind, cur)
            if again:
                h.violate(ID, 'collapse_reported_twice', detail='the solver restored from the last restart file reports %r for %s although its '
                          'termination already masks %r' % (sorted(again), doc[:100], cur), cond=name, restored=True)
        try:
            s2.Collapse()
        except Exception as e:
            h.violate(ID, 'solve_raised', detail='Collapse() on the restored solver raised %s: %s' % (type(e).__name__, str(e)[:160]),
                      exc=type(e).__name__, collapses=orc.n_applied, restored=True)
    finally:
        run.observing = False


def simplify(plan):
    if plan.get('detectors'):
        for i in range(len(plan['detectors'])):
            p = dict(plan); p['detectors'] = plan['detectors'][:i] + plan['detectors'][i + 1:]
            yield p
    if plan.get('installed'):
        for i in range(len(plan['installed'])):
            p = dict(plan); p['installed'] = plan['installed'][:i] + plan['installed'][i + 1:]
            yield p
    for i, op in enumerate(plan['ops']):
        if op['op'] == 'set' and op['what'] != 'init':
            p = dict(plan); p['ops'] = plan['ops'][:i] + plan['ops'][i + 1:]
            yield p
    if plan['kind'] == 'solver':
        t = plan['tree']
        if t['t'] == 'Or' and len(t['of']) > 1:
            for i in range(len(t['of'])):
                p = dict(plan); p['tree'] = {'t': 'Or', 'of': t['of'][:i] + t['of'][i + 1:]}
                yield p
        if plan['limits'][0] > 10:
            p = dict(plan); p['limits'] = [plan['limits'][0] // 2, plan['limits'][1]]
            yield p
    if plan.get('nsteps', 0) > 3:
        p = dict(plan); p['nsteps'] = plan['nsteps'] // 2
        yield p
