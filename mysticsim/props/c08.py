"""C08 -- the optimizers implement their published algorithms.

de      the draw source of the mutation strategies (mystic.strategy.random) is taken over by a
        recording, scriptable generator (seeded stream + legal extremes: a crossover draw exactly
        equal to CR, 0.0, first/last index); every strategy call is wrapped to snapshot the
        population before and the trial after; DERef recomputes the trial from the recorded draws
        by the strategy's published formula; selection is checked to be strict (ties come from
        quantised cost models).
nm      lock-step against the installed scipy Nelder-Mead (same simplex construction and
        coefficients, incl. adaptive): per-iteration best vertex, cumulative evaluation counts,
        final (x, f, iterations, evaluations), for fmin and for the solver class.
powell  lock-step against PowellRef, a transcription of Powell's direction-set method driven by the
        same Brent line search (mystic._scipy060optimize.brent): per-iteration (x, f, direction
        set, evaluation count), and fmin_powell's return tuple.
The nm/powell halves have no schedule, clock or fault dimension (deterministic functions of cost,
x0, tolerances): the simulator contributes the scripted cost environment only.  Stated in MANIFEST.
"""
import hashlib, math, random as _random
import numpy
from .. import env, engine, observe, gen, fs as simfs
from ..env import sub_rng, SimCost, eval_model
from ..observe import canon, feq

ID = 'C08'
LEVEL = 'exploration'
RUNS = {'quick': 1200, 'thorough': 150000}
WALL = {'quick': 150, 'thorough': 2400}
RULE = ("per seed one experiment: (de) DE/DE2 with one of the ten strategies, CR in {0,.3,.5,.9,1}, F, npop 4..8, dim 1..5 on quantised/"
        "smooth costs, all draws of mystic.strategy recorded and partly scripted to legal extremes, trial vectors recomputed from the draws, "
        "strict selection checked per member; (nm) solver and fmin vs scipy's Nelder-Mead, iteration by iteration, incl. adaptive and plateau "
        "costs that force shrinks; (powell) solver and fmin_powell vs PowellRef with the same Brent; non-trivial = >= 3 iterations; "
        "distinct = trace digests")
ASSUMPTIONS = ["the *Bin strategies other than Best1Bin are implemented with the exponential loop; the property does not say which rule a name must "
               "use, so for those only 'the recomputation from the recorded draws by the exponential rule' is asserted",
               "Best2/Rand2 use base + F*(a + b - c - d) (the published form; two docstrings print a different sign pattern)",
               "Powell is compared 'given the same Brent line search': PowellRef calls mystic._scipy060optimize.brent",
               "the Nelder-Mead/Powell halves are input-driven; the simulator supplies the scripted cost environment and, for 30 % of the "
               "class-path Nelder-Mead plans, a LoggingMonitor step monitor on the simulated file system whose writes fail once or twice (EIO/"
               "ENOSPC, handled by the caller, who steps on): the objective never fails, so the iteration must remain the reference's and a "
               "failed write may cost at most its own record",
               "DE plans: the cost may fail once in mid-generation (the retried generation is judged like any other)"]
REAL = ["mystic NM/Powell/DE/DE2 solvers, fmin, fmin_powell, strategy.py, _scipy060optimize.brent, termination defaults"]
STUB = ["cost (scripted peer)", "file open() proxy (log of the NM step monitor)", "mystic.strategy's random source (recording/scripted generator)", "references: scipy.optimize Nelder-Mead, PowellRef, DERef"]
LEVEL_TEXT = ("seeded search over objectives, start points, tolerances, strategies, CR/F/population and draw sequences (with scripted legal "
              "extremes); lock-step refinement against reference implementations at every iteration")
LEVEL_NOTE = ("DE half: draw stream is the simulated seam. NM/Powell halves: weakest use of the technique (no nondeterminism to control); "
              "trusted base = scipy's Nelder-Mead, mystic's Brent, the PowellRef/DERef transcriptions")
OPS_KEY = 'none'
inf = float('inf')

STRATS = ['Best1Exp', 'Best1Bin', 'Rand1Exp', 'Rand1Bin', 'RandToBest1Exp', 'RandToBest1Bin',
          'Best2Exp', 'Best2Bin', 'Rand2Exp', 'Rand2Bin']
NRAND = {'Best1': 2, 'Rand1': 3, 'RandToBest1': 2, 'Best2': 4, 'Rand2': 5}

def gen_plan(seed, tier):
    rng = sub_rng(seed, 'plan.c08')
    kind = rng.choice(['de', 'de', 'nm', 'nm', 'powell'])
    plan = {'property': ID, 'seed': seed, 'tier': tier, 'kind': kind, 'lib_seed': rng.randrange(1 << 30)}
    if kind == 'de':
        strat = rng.choice(STRATS)
        need = NRAND[strat[:-3]] + 1
        plan.update(solver=rng.choice(['DE', 'DE2']), dim=rng.randint(1, 5), strategy=strat,
                    npop=max(need, rng.choice([4, 5, 6, 8])), CR=rng.choice([0.0, 0.3, 0.5, 0.9, 1.0]),
                    F=rng.choice([0.4, 0.8, 1.2]), nsteps=rng.randint(3, 10), p_extreme=rng.choice([0.0, 0.15, 0.4]))
        plan['cost'] = gen.gen_cost(rng, plan['dim'], ['quant', 'quant', 'quad', 'rosen', 'maxabs', 'nanhole'])
        if plan['cost']['model'] == 'nanhole':        # a cost that is nan on a sizeable ball: an unordered comparison in the selection
            plan['cost']['params']['r2'] = rng.choice([0.25, 1.0, 4.0])
        lo, hi = gen.gen_box(rng, plan['dim'], exotic=False)
        plan['init'] = {'lo': lo, 'hi': hi}
        if rng.random() < 0.25:
            # the cost fails once in mid-generation (after generation 0); the step is retried
            npop_ = max(plan['npop'], plan['dim'], 4)
            plan['faults'] = [{'at': 'cost#%d' % (npop_ * rng.randint(1, 3) + rng.randint(1, npop_)), 'kind': 'raise', 'msg': 'injected failure of the cost function'}]
        return plan
    dim = rng.randint(1, 5)
    plan['dim'] = dim
    plan['cost'] = gen.gen_cost(rng, dim, ['quad', 'rosen', 'abs', 'quant', 'quant', 'maxabs', 'quad'])
    plan['x0'] = gen.gen_x0(rng, dim)
    plan['xtol'] = rng.choice([1e-4, 1e-4, 1e-2, 1e-8]); plan['ftol'] = rng.choice([1e-4, 1e-4, 1e-2, 1e-8])
    plan['maxiter'] = rng.choice([None, None, 5, 30, 100]); plan['maxfun'] = rng.choice([None, None, 20, 200])
    plan['via'] = rng.choice(['class', 'wrapper'])
    if kind == 'nm': plan['adaptive'] = rng.random() < 0.3
    if kind == 'nm' and plan['via'] == 'class' and sub_rng(seed, 'plan.c08.companion').random() < 0.2:
        # a second Nelder-Mead solver (another objective, another start) is given the SAME CandidateRelativeTolerance object and the two
        # are stepped in turn: each of them still is the reference iteration of its own problem
        rc = sub_rng(seed, 'plan.c08.companion.cfg')
        plan['companion'] = {'cost': gen.gen_cost(rc, dim, ['quad', 'rosen', 'abs', 'quad']), 'x0': gen.gen_x0(rc, dim)}
    if kind == 'nm' and plan['via'] == 'class' and plan['maxfun'] is None and rng.random() < 0.3:
        # the run is logged to a file (LoggingMonitor as step monitor) and the file fails once or twice (EIO / ENOSPC on a write);
        # the caller handles the error and steps on.  The objective never fails: the iteration is still the reference's, a failed
        # log write costs at most its own record
        rf = sub_rng(seed, 'fault')
        plan['logfaults'] = [{'at': 'fs.write#%d' % a, 'kind': rf.choice(['eio', 'enospc'])}
                             for a in sorted(set(rf.randint(2, 40) for _ in range(rf.choice([1, 1, 2]))))]
    if rng.random() < 0.12:
        # a start at (or within xtol of) the origin whose cost is (within ftol of) zero: before the simplex exists the
        # placeholder vertices/energies must not let the stop rule fire at generation 0
        tiny = rng.choice([0.0, 0.0, 5e-5, -5e-5])
        plan['x0'] = [rng.choice([0.0, tiny]) for _ in range(dim)]
        c = plan['cost']
        if c['model'] not in ('quad', 'abs', 'maxabs', 'quant'): c = plan['cost'] = gen.gen_cost(rng, dim, ['quad', 'abs', 'quad'])
        c['params']['f0'] = 0.0
        from ..env import eval_model
        f_at = eval_model(c, tuple(plan['x0']))
        c['params']['f0'] = -f_at + rng.choice([0.0, 0.0, 5e-5, -3e-5])
        plan['xtol'] = rng.choice([1e-4, 1e-2]); plan['ftol'] = rng.choice([1e-4, 1e-2])
        plan['degenerate_start'] = True
    return plan


# =============================================================== DE

class DrawRecorder(object):
    """stands in for the `random` module inside mystic.strategy"""
    def __init__(self, seed, p_extreme, run):
        self.rng = sub_rng(seed, 'fault')
        self.p = p_extreme; self.run = run
        self.log = []
        self.CR = None
    def sample(self, population, k):
        self.run.seam('rng')
        v = self.rng.sample(list(population), k)
        self.log.append(('sample', tuple(v))); return v
    def randrange(self, n):
        self.run.seam('rng')
        if self.rng.random() < self.p: v = self.rng.choice([0, n - 1])
        else: v = self.rng.randrange(n)
        self.log.append(('randrange', v)); return v
    def random(self):
        self.run.seam('rng')
        if self.rng.random() < self.p and self.CR is not None:
            v = self.rng.choice([self.CR, 0.0, math.nextafter(self.CR, 0.0) if self.CR > 0 else 0.0, 1.0 - 2.0 ** -53])
            if not (0.0 <= v < 1.0): v = 0.0
        else: v = self.rng.random()
        self.log.append(('random', v)); return v
    def uniform(self, a, b): return a + (b - a) * self.random()


def de_ref(name, pop, best, parent, cand, F, CR, draws, ndim):
    """recompute the trial from the recorded draws by the strategy's published definition.
    returns (trial, members)"""
    fam, rule = name[:-3], name[-3:]
    it = iter(draws)
    k, members = next(it); assert k == 'sample'
    k, n = next(it); assert k == 'randrange'
    # Best1Bin draws n after the copy, others before: order of the two draws is as recorded
    trial = list(parent)
    def mutate(j):
        if fam == 'Best1': return best[j] + F * (pop[members[0]][j] - pop[members[1]][j])
        if fam == 'Rand1': return pop[members[0]][j] + F * (pop[members[1]][j] - pop[members[2]][j])
        if fam == 'RandToBest1': return trial[j] + (F * (best[j] - trial[j]) + F * (pop[members[0]][j] - pop[members[1]][j]))
        if fam == 'Best2': return best[j] + F * (pop[members[0]][j] + pop[members[1]][j] - pop[members[2]][j] - pop[members[3]][j])
        if fam == 'Rand2': return pop[members[0]][j] + F * (pop[members[1]][j] + pop[members[2]][j] - pop[members[3]][j] - pop[members[4]][j])
    mutated = []
    if name == 'Best1Bin':
        for i in range(ndim):
            k, c = next(it)
            if i == n or c < CR:
                mutated.append(i)
        for i in mutated: trial[i] = mutate(i)
    else:
        i = 0; j = n
        while True:
            k, c = next(it)
            if c >= CR or i == ndim: break
            trial[j] = mutate(j); mutated.append(j)
            j = (j + 1) % ndim; i += 1
    rest = list(it)
    return trial, members, mutated, rest


def run_de(plan, run, violate, stats):
    import mystic.solvers as ms
    import mystic.strategy as st
    dim, npop = plan['dim'], plan['npop']
    rec = DrawRecorder(plan['seed'], plan['p_extreme'], run); rec.CR = plan['CR']
    saved_random = st.random
    saved_strats = {n: getattr(st, n) for n in STRATS}
    trials = []
    def wrap(name, f):
        def strategy(inst, candidate):
            pop = [tuple(float(v) for v in m) for m in inst.population]
            best = tuple(float(v) for v in inst.bestSolution)
            i0 = len(rec.log)
            f(inst, candidate)
            tr = inst.trialSolution[candidate] if inst._map_solver else inst.trialSolution
            trials.append({'name': name, 'cand': candidate, 'pop': pop, 'best': best,
                           'trial': tuple(float(v) for v in tr), 'draws': rec.log[i0:],
                           'F': inst.scale, 'CR': inst.probability})
        strategy.__name__ = name
        return strategy
    st.random = rec
    for n_, f in saved_strats.items(): setattr(st, n_, wrap(n_, f))
    for f_ in plan.get('faults', []):
        seam, n_at = f_['at'].split('#'); run.faults[(seam, int(n_at))] = f_
    try:
        cls = ms.DifferentialEvolutionSolver if plan['solver'] == 'DE' else ms.DifferentialEvolutionSolver2
        s = cls(dim, npop)
        _random.seed(plan['lib_seed'])
        s.SetRandomInitialPoints(list(plan['init']['lo']), list(plan['init']['hi']))
        s.SetTermination(engine.build_term({'t': 'VTR', 'kw': {'tolerance': 1e-300, 'target': -1e300}}))
        cost = SimCost(plan['cost'])
        kw = dict(strategy=getattr(st, plan['strategy']), CrossProbability=plan['CR'], ScalingFactor=plan['F'])
        first = True
        for g in range(plan['nsteps']):
            before_pop = [tuple(float(v) for v in m) for m in s.population]
            before_E = [float(e) for e in s.popEnergy]
            e0 = len(run.evals); t0 = len(trials)
            try:
                s.Step(cost if first else None, **kw); first = False
            except env.SimFault:
                # the user's cost failed in the middle of a generation; the caller handles it and steps again: the retried
                # generation has to be formed from the population as it stands, like any other
                first = False
                stats['aborted_generations'] = stats.get('aborted_generations', 0) + 1
                continue
            stats['iterations'] += 1
            evs = run.evals[e0:]
            new = trials[t0:]
            if any(e != e for e in (float(v) for v in s.popEnergy)):
                violate('de_selection_not_strict', 'generation %d: a member holds the energy nan (stored energies %r): an unordered '
                        'comparison is not "strictly lower"' % (g, [float(v) for v in s.popEnergy]), strategy=plan['strategy']); return
            if any(isinstance(e.y, float) and e.y != e.y for e in evs): stats['nan_trials'] = stats.get('nan_trials', 0) + 1
            if g == 0:
                continue        # generation 0 evaluates the initial population (no strategy)
            npop = s.nPop           # (the solver raises the population size to max(NP, dim, 4))
            if len(new) != npop or len(evs) != npop:
                violate('de_trial_not_per_strategy', 'generation %d: %d strategy calls and %d cost calls for %d members'
                        % (g, len(new), len(evs), npop), strategy=plan['strategy']); return
            for t in new:
                stats['trials'] += 1
                try:
                    want, members, mutated, rest = de_ref(t['name'], t['pop'], t['best'], t['pop'][t['cand']], t['cand'],
                                                           t['F'], t['CR'], t['draws'], dim)
                except (StopIteration, AssertionError) as e:
                    violate('de_crossover_rule', 'generation %d candidate %d: draw sequence %r does not fit the %s rule'
                            % (g, t['cand'], t['draws'][:8], t['name'][-3:]), strategy=t['name']); return
                if len(set(members)) != len(members) or t['cand'] in members:
                    violate('de_members_not_distinct', 'candidate %d: chosen members %r' % (t['cand'], members), strategy=t['name']); return
                if rest:
                    violate('de_crossover_rule', 'candidate %d: %d draws beyond what the %s rule consumes: %r'
                            % (t['cand'], len(rest), t['name'][-3:], rest[:4]), strategy=t['name']); return
                if not feq(tuple(want), t['trial']):
                    violate('de_trial_not_per_strategy', 'generation %d candidate %d (%s, F=%r, CR=%r): trial %r, definition gives %r '
                            '(members %r, mutated positions %r)' % (g, t['cand'], t['name'], t['F'], t['CR'], t['trial'], tuple(want),
                            members, mutated), strategy=t['name']); return
                if mutated: stats['mutated_positions'] += len(mutated)
                if any(c == t['CR'] for (k_, c) in t['draws'] if k_ == 'random'): stats['cr_boundary_draws'] += 1
            # strict selection, member by member
            for i in range(npop):
                ev = evs[i]; t = new[i]
                if not feq(ev.x, t['trial']):
                    violate('de_trial_not_per_strategy', 'generation %d: member %d evaluated %r but its trial vector was %r'
                            % (g, i, ev.x, t['trial']), strategy=plan['strategy']); return
                y = float(ev.y)
                replaced = not feq(tuple(float(v) for v in s.population[i]), before_pop[i]) or float(s.popEnergy[i]) != before_E[i]
                if y == before_E[i]: stats['ties'] += 1
                should = y < before_E[i]
                same_point = feq(t['trial'], before_pop[i])
                if replaced != should and not (same_point and not should):
                    violate('de_selection_not_strict', 'generation %d member %d: trial energy %r vs member energy %r -> %s'
                            % (g, i, y, before_E[i], 'replaced' if replaced else 'kept'), strategy=plan['strategy']); return
                if should and (not feq(tuple(float(v) for v in s.population[i]), t['trial']) or float(s.popEnergy[i]) != y):
                    violate('de_selection_not_strict', 'generation %d member %d: better trial %r/%r not stored (%r/%r)'
                            % (g, i, t['trial'], y, tuple(s.population[i]), s.popEnergy[i]), strategy=plan['strategy']); return
    finally:
        st.random = saved_random
        for n_, f in saved_strats.items(): setattr(st, n_, f)


# =============================================================== Nelder-Mead

def close(a, b, rel=1e-9):
    """equal 'to rounding' (the property's words): modern scipy orders a few additions differently"""
    a = canon(a); b = canon(b)
    if isinstance(a, tuple) and isinstance(b, tuple):
        return len(a) == len(b) and all(close(i, j, rel) for i, j in zip(a, b))
    if isinstance(a, (int, float)) and isinstance(b, (int, float)):
        if a == b or (a != a and b != b): return True
        return abs(a - b) <= rel * (1.0 + max(abs(a), abs(b)))
    return a == b

def run_nm(plan, run, violate, stats):
    import scipy.optimize as so
    import mystic.solvers as ms
    from mystic.termination import CandidateRelativeTolerance as CRT
    dim = plan['dim']
    x0 = list(plan['x0'])
    calls = [0]; per_iter = []
    def f(x):
        calls[0] += 1
        return eval_model(plan['cost'], tuple(float(v) for v in x))
    def cb(xk): per_iter.append(calls[0])
    opts = dict(xatol=plan['xtol'], fatol=plan['ftol'], return_all=True, adaptive=bool(plan.get('adaptive')), disp=False)
    opts['maxiter'] = plan['maxiter'] if plan['maxiter'] is not None else dim * 200
    opts['maxfev'] = plan['maxfun'] if plan['maxfun'] is not None else dim * 200
    # the initial simplex of the reference fmin: x0, and x0 with one coordinate scaled by 1.05 (0.00025 for a zero coordinate).
    # mystic computes the zero-coordinate offset as (0.05**2)*0.1, one ulp above 0.00025: that is checked separately below, and the
    # lock-step comparison is made from mystic's own starting simplex so that one finding does not mask everything else.
    X0 = numpy.array(x0, dtype=float)
    sim0 = numpy.zeros((dim + 1, dim)); sim0[0] = X0
    exact = True
    for k_ in range(dim):
        y = X0.copy()
        if y[k_] != 0: y[k_] = (1 + 0.05) * y[k_]
        else: y[k_] = (0.05 ** 2) * 0.1; exact = exact and ((0.05 ** 2) * 0.1 == 0.00025)
        sim0[k_ + 1] = y
    opts['initial_simplex'] = sim0
    if any(v == 0 for v in x0) and (0.05 ** 2) * 0.1 != 0.00025:
        stats['zero_coordinate_starts'] = stats.get('zero_coordinate_starts', 0) + 1
    with numpy.errstate(all='ignore'):
        ref = so.minimize(f, numpy.array(x0, dtype=float), method='Nelder-Mead', callback=cb, options=opts)
    cost = SimCost(plan['cost'])
    tags = {'adaptive': bool(plan.get('adaptive')), 'via': plan['via'], 'cost': plan['cost']['model']}
    if plan['via'] == 'wrapper' and not plan.get('adaptive'):
        out = ms.fmin(cost, x0, xtol=plan['xtol'], ftol=plan['ftol'], maxiter=plan['maxiter'], maxfun=plan['maxfun'],
                      full_output=1, disp=0, retall=1)
        x, fval, it, fc, warn, allvecs = out
        stats['iterations'] += it
        if ref.status == 1:
            # modern scipy aborts INSIDE the iteration that exceeds maxfev; the fmin mystic is adapted from (and mystic) finish it
            mf = opts['maxfev']
            if not (mf <= fc <= mf + dim + 1 and ref.nit <= it <= ref.nit + 1 and fc == len(run.evals)):
                violate('wrapper_counts_differ', 'fmin at the evaluation limit %d: iterations %d, evaluations %d (real %d); scipy %d, %d'
                        % (mf, it, fc, len(run.evals), ref.nit, ref.nfev), **tags)
            return
        if it != ref.nit or fc != ref.nfev or fc != len(run.evals):
            violate('wrapper_counts_differ', 'fmin: iterations %d, evaluations %d; scipy Nelder-Mead: %d, %d (real cost calls %d)'
                    % (it, fc, ref.nit, ref.nfev, len(run.evals)), **tags); return
        if not close(x, ref.x) or not close(float(fval), float(ref.fun)):
            violate('nm_diverges_from_reference@final', 'fmin -> %r/%r, scipy -> %r/%r' % (canon(x), fval, canon(ref.x), ref.fun), **tags)
        return
    s = ms.NelderMeadSimplexSolver(dim)
    s.SetInitialPoints(x0)
    s.SetEvaluationLimits(plan['maxiter'], plan['maxfun'])
    s.SetTermination(CRT(plan['xtol'], plan['ftol']))
    kw = {'adaptive': True} if plan.get('adaptive') else {}
    comp = None
    if plan.get('companion'):
        cspec = plan['companion']['cost']; cx0 = list(plan['companion']['x0'])
        ccalls = [0]
        def cf(x):
            ccalls[0] += 1
            return eval_model(cspec, tuple(float(v) for v in x))
        cX0 = numpy.array(cx0, dtype=float); csim0 = numpy.zeros((dim + 1, dim)); csim0[0] = cX0
        for k_ in range(dim):
            y = cX0.copy()
            y[k_] = (1 + 0.05) * y[k_] if y[k_] != 0 else (0.05 ** 2) * 0.1
            csim0[k_ + 1] = y
        with numpy.errstate(all='ignore'):
            cref = so.minimize(cf, cX0, method='Nelder-Mead', options=dict(xatol=plan['xtol'], fatol=plan['ftol'], adaptive=bool(plan.get('adaptive')),
                                                                           disp=False, maxiter=dim * 200, maxfev=dim * 200, initial_simplex=csim0))
        ccalls[0] = 0
        comp = ms.NelderMeadSimplexSolver(dim); comp.SetInitialPoints(cx0)
        comp.SetTermination(s._termination)          # the very same condition object
        comp.SetObjective(cf)
        comp_done = [False]
        tags['companion'] = True
        run.probe('c08.companion_runs')
        def comp_step():
            if comp_done[0]: return
            with numpy.errstate(all='ignore'):
                if comp.Step(**kw) or comp.generations > dim * 200 + 5: comp_done[0] = True
    lost = 0      # step-monitor records lost to a failed log write (the iteration itself was made)
    if plan.get('logfaults'):
        import mystic.monitors as mm
        run.fs = simfs.SimFS(run); run.fs.plant()
        s.SetGenerationMonitor(mm.LoggingMonitor(1, filename=run.fs.path('nm-step.log')))
        base = run.counts['fs.write']        # (the header lines are written by the constructor; the faults land on record writes)
        for f_ in plan['logfaults']:
            seam, n_at = f_['at'].split('#'); run.faults[(seam, base + int(n_at) - 1)] = f_
        tags['log_fault'] = True
    first = True
    k = 0
    while True:
        g_before = len(s._stepmon)
        if comp is not None: comp_step()
        try:
            msg = s.Step(cost if first else None, **kw); first = False
        except env.SimFault:
            run.fired['log_write_error'] = run.fired.get('log_write_error', 0) + 1
            if s._cost[1] is not None: first = False
            if len(s._stepmon) == g_before: lost += 1
            k += 1
            if k > 2000: break
            continue
        k += 1
        stats['iterations'] += 1
        g = s.generations + lost
        if g == 1:
            want = sorted(tuple((1 + 0.05) * v if (j == k_ and v != 0) else (0.00025 if j == k_ else v) for j, v in enumerate(x0))
                          for k_ in range(dim))
            got = sorted(tuple(float(v) for v in m) for m in s.population if tuple(float(v) for v in m) != tuple(float(v) for v in x0))
            if got != want and len(got) == len(want):
                violate('nm_initial_simplex_not_reference', 'initial simplex vertices %r, the reference rule (x*1.05, or 0.00025 for a zero '
                        'coordinate) gives %r' % (got, want), x0_has_zero=any(v == 0 for v in x0), **tags)
        if g >= 2:
            # scipy's allvecs[k] (k >= 1) is the best vertex after its k-th loop pass; mystic's generation 1 builds the simplex
            last = len(ref.allvecs) - (1 if ref.status == 1 else 0)   # scipy appends its aborted partial iteration at maxfev
            if g - 1 < last:
                if not close(s.bestSolution, ref.allvecs[g - 1]):
                    violate('nm_diverges_from_reference@iter', 'iteration %d: best vertex %r, scipy %r' % (g, canon(s.bestSolution),
                            canon(ref.allvecs[g - 1])), **tags); return
            if g >= 2 and g - 2 < len(per_iter) - (1 if ref.status == 1 else 0) and s.evaluations != per_iter[g - 2]:
                violate('nm_diverges_from_reference@iter', 'after iteration %d mystic made %d evaluations, scipy %d'
                        % (g - 1, s.evaluations, per_iter[g - 2]), **tags); return
        if msg or k > 2000: break
    if comp is not None:
        for _ in range(dim * 200 + 10):
            if comp_done[0]: break
            comp_step()
        if cref.status == 0 and (comp.generations != cref.nit or comp.evaluations != cref.nfev or not close(comp.bestSolution, cref.x)
                                 or not close(float(comp.bestEnergy), float(cref.fun))):
            violate('nm_diverges_from_reference@final', 'a second Nelder-Mead solver stepped in turn with this one under the same '
                    'CandidateRelativeTolerance object ended at %r/%r after %d iterations, %d evaluations; scipy for its problem: %r/%r, %d, %d'
                    % (canon(comp.bestSolution), float(comp.bestEnergy), comp.generations, comp.evaluations, canon(cref.x), float(cref.fun),
                       cref.nit, cref.nfev), **tags)
            return
    if ref.status == 1:
        mf = opts['maxfev']
        if not (mf <= s.evaluations <= mf + dim + 1 and ref.nit <= s.generations + lost <= ref.nit + 1 and s.evaluations == len(run.evals)):
            violate('wrapper_counts_differ', 'solver at the evaluation limit %d: iterations %d, evaluations %d (real %d); scipy %d, %d'
                    % (mf, s.generations, s.evaluations, len(run.evals), ref.nit, ref.nfev), **tags)
        return
    if s.generations + lost != ref.nit or s.evaluations != ref.nfev or len(run.evals) != ref.nfev:
        violate('wrapper_counts_differ', 'solver: iterations %d (+%d whose record was lost to a failed log write), evaluations %d (real %d); '
                'scipy Nelder-Mead: %d, %d' % (s.generations, lost, s.evaluations, len(run.evals), ref.nit, ref.nfev), **tags); return
    if not close(s.bestSolution, ref.x) or not close(float(s.bestEnergy), float(ref.fun)):
        violate('nm_diverges_from_reference@final', 'solver -> %r/%r, scipy -> %r/%r' % (canon(s.bestSolution), s.bestEnergy,
                canon(ref.x), ref.fun), **tags)


# =============================================================== Powell

def powell_ref(f, x0, xtol, ftol, maxiter, maxfun, counter):
    """Powell's direction-set method (as in scipy's fmin_powell of the vintage mystic adapts), with the
    same Brent line search.  Yields (x, fval, direc, ncalls) after the line searches of every iteration."""
    from mystic._scipy060optimize import brent
    x = numpy.asarray(x0, dtype=float).flatten()
    N = len(x)
    direc = numpy.eye(N, dtype=float)
    def line(p, xi):
        def g(alpha): return f(p + alpha * xi)
        with numpy.errstate(all='ignore'):
            a, fret, it, num = brent(g, full_output=1, tol=xtol * 100, maxiter=500)
        xi = a * xi
        return numpy.squeeze(fret), p + xi, xi
    fval = numpy.squeeze(f(x))
    x1 = x.copy()
    it = 0
    yield ('init', x.copy(), fval, direc.copy(), counter[0])
    while True:
        fx = fval; bigind = 0; delta = 0.0
        for i in range(N):
            d1 = direc[i]; fx2 = fval
            fval, x, d1 = line(x, d1)
            both_inf = numpy.isinf(fx2) & numpy.isinf(fval)
            if not both_inf and (fx2 - fval) > delta:
                delta = fx2 - fval; bigind = i
        it += 1
        yield ('iter', x.copy(), fval, direc.copy(), counter[0])
        # stop rule = mystic's documented default, NormalizedChangeOverGeneration(ftol, generations=2): it needs a history
        # longer than its window, so it cannot fire before the second iteration
        if it >= 2 and (fx == fval or 2.0 * (fx - fval) <= ftol * (abs(fx) + abs(fval)) + 1e-20): break
        if counter[0] >= maxfun: break
        if it >= maxiter: break
        d1 = x - x1; x2 = 2 * x - x1; x1 = x.copy()
        fx2 = numpy.squeeze(f(x2))
        if fx > fx2:
            with numpy.errstate(all='ignore'):
                t = 2.0 * (fx + fx2 - 2.0 * fval)
                temp = (fx - fval - delta); t *= temp * temp
                temp = fx - fx2; t -= delta * temp * temp
            if t < 0.0:
                fval, x, d1 = line(x, d1)
                direc[bigind] = direc[-1]
                direc[-1] = d1
    yield ('final', x.copy(), fval, direc.copy(), counter[0])


def run_powell(plan, run, violate, stats):
    import mystic.solvers as ms
    from mystic.termination import NormalizedChangeOverGeneration as NCOG
    dim = plan['dim']
    x0 = list(plan['x0'])
    counter = [0]
    def f(x):
        counter[0] += 1
        return eval_model(plan['cost'], tuple(float(v) for v in x))
    maxiter = plan['maxiter'] if plan['maxiter'] is not None else dim * 1000
    maxfun = plan['maxfun'] if plan['maxfun'] is not None else dim * 1000
    ref = list(powell_ref(f, x0, plan['xtol'], plan['ftol'], maxiter, maxfun, counter))
    iters = [r for r in ref if r[0] == 'iter']
    final = ref[-1]
    cost = SimCost(plan['cost'])
    tags = {'via': plan['via'], 'cost': plan['cost']['model'], 'dim': dim}
    if plan['via'] == 'wrapper':
        out = ms.fmin_powell(cost, x0, xtol=plan['xtol'], ftol=plan['ftol'], maxiter=plan['maxiter'], maxfun=plan['maxfun'],
                             full_output=1, disp=0)
        x, fval, it, fc, warn, direc = out
        stats['iterations'] += it
        if it != len(iters) or fc != final[4] or len(run.evals) != final[4]:
            violate('wrapper_counts_differ', 'fmin_powell: iterations %d, evaluations %d (real %d); reference: %d, %d'
                    % (it, fc, len(run.evals), len(iters), final[4]), **tags); return
        if not feq(canon(numpy.atleast_1d(x)), canon(final[1])) or not feq(float(fval), float(final[2])):
            violate('powell_diverges_from_reference@final', 'fmin_powell -> %r/%r, reference -> %r/%r'
                    % (canon(x), fval, canon(final[1]), final[2]), **tags); return
        if not feq(canon(direc), canon(final[3])):
            violate('powell_diverges_from_reference@final', 'final direction set %r, reference %r' % (canon(direc), canon(final[3])), **tags)
        return
    s = ms.PowellDirectionalSolver(dim)
    s.SetInitialPoints(x0)
    s.SetEvaluationLimits(plan['maxiter'], plan['maxfun'])
    s.SetTermination(NCOG(plan['ftol'], 2))
    first = True; k = 0
    while True:
        msg = s.Step(cost if first else None, xtol=plan['xtol']); first = False
        k += 1; stats['iterations'] += 1
        if k >= 2 and k - 2 < len(iters):
            r = iters[k - 2]
            got = (canon(s.bestSolution), float(s.bestEnergy), s.evaluations)
            want = (canon(r[1]), float(r[2]), r[4])
            if not feq(got[0], want[0]) or not feq(got[1], want[1]) or got[2] != want[2]:
                violate('powell_diverges_from_reference@iter', 'after the line searches of iteration %d: x=%r f=%r calls=%d; reference '
                        'x=%r f=%r calls=%d' % (k - 1, got[0], got[1], got[2], want[0], want[1], want[2]), **tags); return
            if not feq(canon(s._direc), canon(r[3])):
                violate('powell_diverges_from_reference@iter', 'iteration %d: direction set %r; reference %r'
                        % (k - 1, canon(s._direc), canon(r[3])), **tags); return
        if msg or k > 3000: break
    if s.generations != len(iters) or s.evaluations != final[4]:
        violate('wrapper_counts_differ', 'solver: iterations %d, evaluations %d; reference: %d, %d'
                % (s.generations, s.evaluations, len(iters), final[4]), **tags)


def run_plan(plan):
    run = env.Run(plan['seed'], budget=3000000)
    env.begin(run)
    V = []
    stats = {'iterations': 0, 'trials': 0, 'ties': 0, 'mutated_positions': 0, 'cr_boundary_draws': 0}
    def violate(kind, detail, **tags):
        where = {'de': plan.get('solver', 'DE'), 'nm': 'NM', 'powell': 'Powell'}[plan['kind']]
        V.append(engine.Violation(ID, kind, where, tags, detail))
    try:
        with engine.patched_world(run):
            {'de': run_de, 'nm': run_nm, 'powell': run_powell}[plan['kind']](plan, run, violate, stats)
    finally:
        if getattr(run, 'fs', None) is not None:
            try: run.fs.cleanup()
            except Exception: pass
        env.end()
    tr = repr(canon(run.trace)) + repr(len(run.evals)) + repr(sorted(stats.items())) + repr(canon([e.x for e in run.evals[-5:]]))
    return {'violations': V, 'digest': hashlib.sha1(tr.encode()).hexdigest(), 'probes': run.probes, 'fired': run.fired,
            'sim_s': 0.0, 'nontrivial': stats['iterations'] >= 3, 'stats': dict(stats, cost_calls=len(run.evals))}


def simplify(plan):
    if plan.get('nsteps', 0) > 2:
        p = dict(plan); p['nsteps'] = plan['nsteps'] - 1
        yield p
    if plan.get('p_extreme'):
        p = dict(plan); p['p_extreme'] = 0.0
        yield p
    for key in ('maxiter', 'maxfun'):
        if plan.get(key) is not None:
            p = dict(plan); p[key] = None
            yield p
