"""C05 -- stopping discipline: limits, termination and exit requests are honoured."""
from .. import solverplan, oracles, gen
from ..env import sub_rng

ID = 'C05'
LEVEL = 'exploration'
RUNS = {'quick': 1500, 'thorough': 120000}
WALL = {'quick': 120, 'thorough': 1500}
RULE = ("seeded op sequences (Step loops, Solve, repeated Solve, limits (re)set at any point incl. 0/1/None/new=True, "
        "termination trees incl. TimeLimits on three simulated clocks and SolverInterrupt) with SIGINT delivered from inside a "
        "seeded cost call and scripted tty answers, clock jumps/backward steps; a LimitModel is evaluated at the start of every "
        "_Step; non-trivial = more than one _Step and cost call; distinct = trace digests")
ASSUMPTIONS = ["the model's iteration count is the number of completed _Step executions, its evaluation count the number of real calls of the scripted cost",
               "default (None) limits are taken as mystic resolved them; explicit limits are modelled independently",
               "a backward wall-clock step may legitimately delay TimeLimits(system=None); the oracle uses the reading the condition saw",
               "an interrupt that arrives while no handler is installed is a KeyboardInterrupt and ends the plan",
               "GradientNormTolerance differentiates the raw cost from inside the termination test: those calls are answered purely and are not "
               "counted as evaluations (mystic does not count them either)",
               "'Solve always returns' includes: a legal Set*/Step/Solve sequence does not die of an internal error (TypeError, AttributeError, "
               "IndexError, KeyError, NameError, UnboundLocalError, AssertionError, RecursionError); ValueError is mystic's rejection of a setting"]
REAL = ["mystic solvers, Step/Solve/Terminated, termination conditions, _signal.Handler"]
STUB = ["cost/constraint/penalty/callback peers", "time.time/perf_counter/process_time (SimClock)",
        "signal.signal + input() (SimSignal: delivery from inside a cost call, scripted tty)", "file open() proxy"]
LEVEL_TEXT = ("seeded search over histories and fault points (interrupt at a seeded cost call, clock jumps); the stop rule is "
              "re-evaluated by an independent LimitModel + TerminationRef at the start of every iteration; bounded-liveness "
              "budget on seam crossings for 'Solve always returns'")
LEVEL_NOTE = "trusts the scripted peers' call log and the TerminationRef transcription of the documented inequalities; sampling, not proof"
KNOBS = dict(p_term=0.0, p_limits=0.75, p_midrun_set=0.5, midrun_sets=('limits', 'limits', 'termination', 'penalty', 'evalmon'),
             p_solve=0.7, p_bounds=0.2, p_constraint=0.1, p_penalty=0.15, p_vector=0.0, max_ops=8, p_handler=0.5,
             cost_models=['quad', 'quad', 'rosen', 'abs', 'quant', 'maxabs'])
valid = solverplan.valid_solver_plan
simplify = solverplan.simplify_solver_plan
TTY = [['exit'], ['exit'], ['cont'], ['sol', 'exit'], ['call', 'cont'], ['EXIT'], ['bogus', 'exit'], ['sol', 'Cont'], ['call', 'exit']]

def decorate(plan, seed, p_clock=0.6, p_int=0.6):
    """add termination trees, simulated clock and interrupt faults to a solver plan"""
    rng = sub_rng(seed, 'plan.c05')
    solver = plan['solver']
    ops = plan['ops']
    # a termination tree before the first step (after init), others possibly mid-run
    first_run = next((i for i, o in enumerate(ops) if o['op'] in ('step', 'solve')), len(ops))
    if rng.random() < 0.85:
        ops.insert(first_run, {'op': 'set', 'what': 'termination', 'arg': gen.gen_term_tree(rng, solver)})
    for i, o in enumerate(ops):
        if o['op'] == 'set' and o['what'] == 'termination' and i > first_run:
            o['arg'] = gen.gen_term_tree(rng, solver)
    if rng.random() < p_clock:
        plan['clock'] = {'scale': rng.choice([1e-3, 1.0, 100.0])}
    faults = []
    if rng.random() < p_int:
        for _ in range(rng.choice([1, 1, 2, 3])):
            faults.append({'at': 'cost#%d' % rng.randint(1, 60), 'kind': 'interrupt', 'tty': rng.choice(TTY)})
    if plan.get('clock') and rng.random() < 0.4:
        faults.append({'at': 'cost#%d' % rng.randint(1, 60), 'kind': rng.choice(['jump', 'back', 'stall']),
                       'dt': rng.choice([0.5, 30.0, 4000.0, 90000.0])})
    seen = set(); out = []
    for f in faults:
        if f['at'] not in seen: seen.add(f['at']); out.append(f)
    plan['faults'] = out
    for o in ops:
        if o['op'] == 'solve' and rng.random() < 0.4: o['sigint_callback'] = True
    # time passes between two Step calls (the caller does something else): a TimeLimits condition can become true while
    # the solver is idle, and the next Step must see it
    if plan.get('clock'):
        r3 = sub_rng(seed, 'plan.c05.idle')
        k = 0
        while k < len(ops) - 1:
            if ops[k]['op'] == 'step' and ops[k + 1]['op'] in ('step', 'solve') and r3.random() < 0.5:
                ops.insert(k + 1, {'op': 'clock', 'dt': r3.choice([0.5, 30.0, 4000.0, 90000.0]), 'cpu': r3.random() < 0.7}); k += 1
            k += 1
        # split multi-step ops so that there is an idle moment to use
        for o in list(ops):
            if o['op'] == 'step' and o.get('n', 1) > 2 and r3.random() < 0.5:
                i = ops.index(o); n = o['n']; a = r3.randint(1, n - 1)
                ops[i:i + 1] = [{'op': 'step', 'n': a}, {'op': 'clock', 'dt': r3.choice([30.0, 4000.0, 90000.0]), 'cpu': True}, {'op': 'step', 'n': n - a}]
    # stop, save, and resume in a 'new process' (or carry on with a copy): limits, termination and exit requests have to
    # be honoured by the solver that is actually running
    r2 = sub_rng(seed, 'plan.c05.resume')
    if r2.random() < 0.25:
        runs = [i for i, o in enumerate(ops) if o['op'] in ('step', 'solve')]
        if runs:
            at = r2.choice(runs) + 1
            ops.insert(at, {'op': 'saveload'} if r2.random() < 0.75 else {'op': 'copy', 'shallow': r2.random() < 0.7})
            if not any(o['op'] in ('step', 'solve') for o in ops[at + 1:]):
                ops.append({'op': 'set', 'what': 'limits', 'arg': [r2.choice([5, 10, 30]), None, True]})
                ops.append({'op': 'solve'})
    # a termination that looks at the OBJECTIVE (GradientNormTolerance differentiates the raw cost at the current best), and the
    # objective replaced between two Steps: the stop rule has to be the one of the objective in force at that moment
    r4 = sub_rng(seed, 'plan.c05.gnt')
    if r4.random() < 0.12 and not isinstance(plan['cost']['params'].get('parts'), list):
        g = lambda: {'t': 'GradientNormTolerance', 'kw': {'tolerance': r4.choice([1e-3, 0.1, 1.0, 10.0, 100.0]), 'norm': r4.choice(['inf', 'inf', 2, 1])}}
        sets = [o for o in ops if o['op'] == 'set' and o['what'] == 'termination']
        if not sets:
            ops.insert(first_run, {'op': 'set', 'what': 'termination', 'arg': g()})
        for o in sets:
            c = r4.random()
            if c < 0.4: o['arg'] = g()
            elif c < 0.8: o['arg'] = {'t': 'Or', 'of': [g(), o['arg']] if r4.random() < 0.5 else [o['arg'], g()]}
            else: o['arg'] = {'t': 'And', 'of': [g(), o['arg']]}
        for _ in range(r4.choice([1, 1, 2])):
            runs = [i for i, o in enumerate(ops) if o['op'] in ('step', 'solve')]
            if not runs: break
            at = r4.choice(runs) + 1
            ops.insert(at, {'op': 'set', 'what': 'objective', 'arg': gen.gen_cost(r4, plan['dim'], ['quad', 'quad', 'abs', 'rosen', 'maxabs', 'flat'])})
            ops.insert(at + 1, {'op': 'step', 'n': r4.randint(1, 3)})
    return plan

def _gen_plan(seed, tier):
    plan = solverplan.gen_solver_plan(seed, tier, ID, KNOBS)
    return decorate(plan, seed)

def _run_plan(plan):
    return solverplan.run_solver_plan(plan, [oracles.LimitModel], hang_is=('C05', 'solve_did_not_return'), budget=400000)


# ---- the one-liner interfaces named by the property (fmin, fmin_powell, diffev, diffev2, lattice, buckshot)
from .. import wrappers as _wr
from ..env import sub_rng as _sub_rng
P_WRAPPER = 0.1

def gen_plan(seed, tier):
    if _sub_rng(seed, 'plan.kind.wrapper').random() < P_WRAPPER:
        return _wr.gen_wrapper_plan(seed, tier, ID, interrupts=(ID == 'C05'))
    return _gen_plan(seed, tier)

def run_plan(plan):
    if plan.get('kind') == 'wrapper': return _wr.run_wrapper_plan(plan, (ID,))
    return _run_plan(plan)

_valid0 = valid
_simplify0 = simplify
def valid(plan):
    if plan.get('kind') == 'wrapper': return True
    return True if _valid0 is None else _valid0(plan)
def simplify(plan):
    if plan.get('kind') == 'wrapper': return _wr.simplify_wrapper_plan(plan)
    return _simplify0(plan)
