from .. import solverplan, oracles
ID = 'C02'
LEVEL = 'exploration'
REQUIRED_PROBES = ['c02.evals_checked_against_box']
RUNS = {'quick': 1500, 'thorough': 100000}
WALL = {'quick': 120, 'thorough': 1500}
REAL = ["mystic solvers, tools.wrap_*, constraints.and_/boundsconstrain, symbolic bounds (sympy), termination, monitors"]
STUB = ["cost, constraints, penalty, callback (scripted peers)", "clocks", "signal/tty", "file open() proxy"]
valid = solverplan.valid_solver_plan
simplify = solverplan.simplify_solver_plan

RULE = ("seeded op sequences with strict ranges installed before the run, mid-run, changed and removed (all tight/clip modes, "
        "degenerate/one-sided/infinite sides), hostile constraints that push points out of the box, DE re-draws; every logged "
        "cost argument is tested against the box in force; non-trivial = more than one _Step and cost call; distinct = trace digests")
ASSUMPTIONS = ["GradientNormTolerance (which calls the raw cost from inside the termination test) is not in the termination pool"]
LEVEL_TEXT = ("seeded search over boxes, range modes, constraints and interleavings of SetStrictRanges with Step; "
              "history check over every real cost call")
LEVEL_NOTE = "trusts the scripted cost's call log; sampling, not proof"
KNOBS = dict(p_bounds=0.85, p_constraint=0.4, p_penalty=0.2, p_vector=0.05, p_exotic_box=0.5, p_clipfalse=0.15,
             p_midrun_set=0.55, midrun_sets=('bounds', 'bounds', 'bounds', 'constraint', 'limits', 'penalty'),
             p_hostile=0.3, p_illegal=0.05, p_reject=0.3, max_ops=8)
ORACLES = [oracles.BoxOracle]
valid = None

def _gen_plan(seed, tier):
    r6 = _sub_rng5(seed, 'plan.c02.restart')
    if r6.random() < 0.07:
        # a restart file is registered; the ranges are narrowed between two iterations; the process dies and a new one resumes from the
        # file as it stands.  Whatever moment the file is a snapshot of, the restored solver keeps to the ranges it says it has
        plan = solverplan.gen_solver_plan(seed, tier, ID, dict(KNOBS, p_bounds=1.0, p_exotic_box=0.0, p_constraint=0.0, p_hostile=0.0, p_illegal=0.0,
                                                                p_reject=0.0, p_midrun_set=0.0, p_solve=0.0, p_term=0.2, p_limits=0.0, max_ops=1))
        ops = [o for o in plan['ops'] if o['op'] == 'set']
        b0 = next((o for o in ops if o['what'] == 'bounds' and o.get('arg')), None)
        if b0 is not None and all(abs(v) < 1e6 for v in b0['arg']['lo'] + b0['arg']['hi']):
            lo, hi = b0['arg']['lo'], b0['arg']['hi']
            nlo = []; nhi = []
            for a, c in zip(lo, hi):
                w = c - a
                nlo.append(a + r6.choice([0.0, 0.1, 0.25, 0.4]) * w); nhi.append(c - r6.choice([0.0, 0.1, 0.25, 0.4]) * w)
            ops.append({'op': 'set', 'what': 'save', 'arg': {'every': r6.choice([1, 1, 2]), 'file': 'restart.pkl'}})
            ops.append({'op': 'step', 'n': r6.randint(1, 4)})
            ops.append({'op': 'set', 'what': 'bounds', 'arg': dict(b0['arg'], lo=nlo, hi=nhi)})
            ops.append({'op': 'loadstate'})
            ops.append({'op': 'step', 'n': r6.randint(1, 4)})
            plan['ops'] = ops
            return plan
    r7 = _sub_rng5(seed, 'plan.c02.evicted')
    if r7.random() < 0.06:
        # every initial candidate is thrown out of the box by the constraints (default tight=None): the first iteration evaluates
        # nothing, the solver's counters stay at zero -- and then the ranges are changed.  Candidates made later that the
        # constraint leaves alone fall inside the old box and outside the new one
        from .. import gen as _gen
        th = r7.choice([0.4, 0.5, 0.55]); cut = round(th + r7.choice([0.05, 0.1, 0.2]), 2)
        j = r7.choice([0, 0, 1])
        blo = [0.0, 0.0]; blo[j] = cut if j == 0 else r7.choice([0.3, 0.5])
        ops = [{'op': 'set', 'what': 'init', 'arg': {'lo': [round(th + 0.05, 2), 0.0], 'hi': [1.0, 1.0]}},
               {'op': 'set', 'what': 'bounds', 'arg': {'lo': [0.0, 0.0], 'hi': [1.0, 1.0], 'tight': None}},
               {'op': 'set', 'what': 'constraint', 'arg': {'family': 'push_if', 'form': r7.choice(['pure', 'inplace']),
                                                           'params': {'i': 0, 't': th, 'to': 6.0}}},
               {'op': 'set', 'what': 'de', 'arg': {'strategy': r7.choice(['Rand1Bin', 'Best1Exp', 'Rand1Exp']), 'CR': 0.9, 'F': 0.8}},
               {'op': 'step', 'n': 1},
               {'op': 'set', 'what': 'bounds', 'arg': {'lo': blo, 'hi': [1.0, 1.0], 'tight': None}},
               {'op': 'step', 'n': r7.randint(5, 25)}]
        return {'property': ID, 'seed': seed, 'tier': tier, 'solver': r7.choice(['DE', 'DE', 'DE2']), 'dim': 2,
                'lib_seed': r7.randrange(1 << 30), 'npop': r7.choice([8, 12]), 'cost': _gen.gen_cost(r7, 2, ['quad', 'rosen']),
                'ops': ops, 'faults': [], 'evicted_start': True}
    plan = solverplan.gen_solver_plan(seed, tier, ID, KNOBS)
    # a hostile constraint makes mystic's and_(constraints, bounds) loop up to 100x per cost call: keep
    # run-to-default-limits Solves out of those plans (cost, not a hang) by bounding the generations
    ops = plan['ops']
    hostile = any(o['op'] == 'set' and o['what'] == 'constraint' and (o.get('arg') or {}).get('family', '').startswith('push')
                  for o in ops)
    if hostile and any(o['op'] == 'solve' for o in ops):
        first = next(i for i, o in enumerate(ops) if o['op'] in ('step', 'solve'))
        has = any(o['op'] == 'set' and o['what'] == 'limits' and o['arg'][0] is not None for o in ops[:first])
        if not has:
            ops.insert(first, {'op': 'set', 'what': 'limits', 'arg': [10 + seed % 31, None, False]})
        for o in ops[first + 1:]:
            if o['op'] == 'set' and o['what'] == 'limits' and o['arg'][0] is None:
                o['arg'][0] = 10 + seed % 17
        if plan['solver'] == 'Powell':
            # (Powell spends ~50 cost calls per iteration, each through up to 100 rounds of the constraint loop)
            for o in ops:
                if o['op'] == 'set' and o['what'] == 'limits' and (o['arg'][0] is None or o['arg'][0] > 12): o['arg'][0] = 6 + seed % 7
    # a first box given in whole numbers (Python ints, as users write them: SetStrictRanges([0,0],[10,10])), later replaced by a
    # fractional one between two iterations
    r5 = _sub_rng5(seed, 'plan.c02.intbox')
    b0 = next((o for o in ops if o['op'] == 'set' and o['what'] == 'bounds' and o.get('arg') and not o['arg'].get('invalid')), None)
    first = next((i for i, o in enumerate(ops) if o['op'] in ('step', 'solve')), None)
    if r5.random() < 0.15 and b0 is not None and first is not None and ops.index(b0) < first and not hostile \
       and all(abs(v) < 1e6 for v in b0['arg']['lo'] + b0['arg']['hi']):
        import math
        lo = [int(math.floor(v)) for v in b0['arg']['lo']]; hi = [int(math.ceil(v)) for v in b0['arg']['hi']]
        # (the same box in every earlier bounds op, so that the solver's first box really is the integer one)
        for o in ops[:first]:
            if o['op'] == 'set' and o['what'] == 'bounds' and o.get('arg') and not o['arg'].get('invalid'):
                o['arg'] = dict(o['arg'], lo=list(lo), hi=list(hi))
        for o in ops[:first]:
            if o['op'] == 'set' and o['what'] == 'constraint': o['arg'] = None
        new_lo = []; new_hi = []
        for a, c in zip(lo, hi):
            w = c - a
            if w <= 0: new_lo.append(a); new_hi.append(c); continue
            f1 = r5.choice([0.0, 0.25, 0.5, 0.5, 0.75]) * min(1.0, w / 3.0); f2 = r5.choice([0.0, 0.25, 0.5, 0.5, 0.75]) * min(1.0, w / 3.0)
            new_lo.append(a + f1); new_hi.append(c - f2)
        at = first + 1
        ops.insert(at, {'op': 'set', 'what': 'bounds', 'arg': dict(b0['arg'], lo=new_lo, hi=new_hi)})
        ops.insert(at + 1, {'op': 'step', 'n': r5.randint(1, 4)})
        # (constraints were drawn to fit the boxes as generated: none in these plans, before or during the run)
        ops = [o for o in ops if not (o['op'] == 'set' and o['what'] == 'constraint')]
        for o in ops: o.pop('constraint_kw', None)
        plan['ops'] = ops
    return plan

from ..env import sub_rng as _sub_rng5

def _run_plan(plan):
    return solverplan.run_solver_plan(plan, ORACLES)


# ---- the one-liner interfaces named by the property (fmin, fmin_powell, diffev, diffev2, lattice, buckshot)
from .. import wrappers as _wr
from ..env import sub_rng as _sub_rng
P_WRAPPER = 0.1

def gen_plan(seed, tier):
    if _sub_rng(seed, 'plan.kind.wrapper').random() < P_WRAPPER:
        return _wr.gen_wrapper_plan(seed, tier, ID, interrupts=(ID == 'C05'))
    return _gen_plan(seed, tier)

def run_plan(plan):
    if plan.get('kind') == 'wrapper': return _wr.run_wrapper_plan(plan, (ID,))
    return _run_plan(plan)

_valid0 = valid
_simplify0 = simplify
def valid(plan):
    if plan.get('kind') == 'wrapper': return True
    return True if _valid0 is None else _valid0(plan)
def simplify(plan):
    if plan.get('kind') == 'wrapper': return _wr.simplify_wrapper_plan(plan)
    return _simplify0(plan)
