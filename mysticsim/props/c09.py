"""C09 -- ensemble solvers return the best member and account for all work.

Lattice / Buckshot (thorough: small Sparsity) ensembles with NM / Powell / DE members are run
under every SimMap mode (the map peer attributes every real cost call to its work item = member)
in run-to-completion, Solve(step=True) and manual Step mode, and the wrappers lattice/buckshot
are called; the point generators are exercised as the solvers invoke them and directly.
"""
import hashlib, itertools, random as _random
import numpy
from .. import env, engine, observe, gen, ensembles, maps, fs as simfs
from ..env import sub_rng, con_apply, pen_apply, eval_model
from ..observe import canon, feq
from ..oracles import in_box, finite, reduce_energy

ID = 'C09'
LEVEL = 'exploration'
RUNS = {'quick': 500, 'thorough': 12000}
WALL = {'quick': 150, 'thorough': 2400}
RULE = ("seeded Lattice (int and per-dimension bins incl. 1s) / Buckshot ensembles with NM/Powell/DE members, bounds (tight/clip modes), "
        "constraints, penalty, limits, termination, under serial/reversed/shuffled/threaded/process SimMaps and in Solve / Solve(step=True) / "
        "manual Step mode, plus the lattice/buckshot wrappers and direct calls of gridpts/samplepts/randomly_bin/random_samples; the map "
        "peer attributes each real cost call to a member; non-trivial = >= 2 members and >= 2 iterations; distinct = trace digests")
ASSUMPTIONS = ["constraints deterministic, idempotent, box compatible",
               "the Lattice cell-centre check is made for explicit per-dimension bins (an integer nbins is split randomly by mystic: only count and range are checked)",
               "SparsitySolver/fillpts run a nested differential evolution per point and are exercised in thorough tier only"]
REAL = ["mystic.ensemble, abstract_ensemble_solver, nested solvers, math.grid/samples point generators, dill"]
STUB = ["the map (SimMap) incl. attribution of cost calls to work items", "cost/constraint/penalty/callback peers", "library RNG seeding"]
LEVEL_TEXT = ("seeded search over ensemble configurations, map schedules and drive modes; reduction, accounting and per-member obligations are "
              "recomputed from the real cost-call log attributed to members by the map peer")
LEVEL_NOTE = "trusts the scripted peers' call log and the map peer's item attribution; sampling, not proof"
RUN_WALL = 150
OPS_KEY = 'none'


def gen_plan(seed, tier):
    rng = sub_rng(seed, 'plan.c09')
    plan = ensembles.gen_ensemble_plan(rng, seed, tier, ID)
    if rng.random() < 0.3:
        plan['nested'] = 'DE'; plan['nested_np'] = rng.choice([4, 5, 6])
        plan['limits'] = [rng.choice([2, 3, 5, 8]), plan['limits'][1]]
    plan['maps'] = ensembles.map_specs(rng, tier, 2)
    plan['modes'] = ['solve', 'solve_step', 'steps', 'while'] if tier != 'quick' else (['solve'] + rng.sample(['solve_step', 'steps', 'while', 'while'], 1))
    plan['wrapper'] = rng.random() < 0.3
    plan['generators'] = rng.random() < 0.4
    plan['nested_instance'] = rng.random() < 0.25
    if plan['limits'][0] is None:
        # run-to-convergence plans are long: a light map and the two modes that matter (run-to-completion vs the
        # caller's `while not Terminated(): Step()` loop)
        plan['maps'] = [{'mode': rng.choice(['serial', 'shuffled', 'reversed']), 'salt': 0}]
        plan['modes'] = ['solve', 'while']
        plan['wrapper'] = False
    # (work bound: members x generations x calls per generation x variants -- trim the variants of the heaviest plans)
    n_mem = expected_members(plan)
    G_ = plan['limits'][0] if plan['limits'][0] is not None else 60
    per_gen = 50 if plan['nested'] == 'Powell' else (plan.get('nested_np') or 2)
    while n_mem * G_ * per_gen * len(plan['maps']) * len(plan['modes']) > 150000 and (len(plan['maps']) > 2 or len(plan['modes']) > 2):
        if len(plan['maps']) > 2: plan['maps'] = plan['maps'][:-1]
        else: plan['modes'] = plan['modes'][:-1]
    r3 = sub_rng(seed, 'plan.c09.degenerate')
    if plan['ensemble'] == 'Lattice' and plan.get('bounds') and r3.random() < 0.15:
        # a parameter fixed by its bounds (lower == upper): the lattice still has as many members as requested (their cells coincide
        # along that axis)
        b = plan['bounds']; i = r3.randrange(plan['dim'])
        v = r3.choice([b['lo'][i], b['hi'][i]])
        b['lo'] = list(b['lo']); b['hi'] = list(b['hi']); b['lo'][i] = v; b['hi'][i] = v
        plan['constraint'] = None
        if isinstance(plan['nbins'], list) and r3.random() < 0.7: plan['nbins'][i] = r3.choice([2, 2, 3])
        plan['degenerate_axis'] = i
        if plan['limits'][0] is None:      # (a simplex cannot converge along a fixed parameter: such runs end on their limits)
            plan['limits'] = [r3.choice([12, 20, 30, 45]), None]
            plan['maps'] = ensembles.map_specs(sub_rng(seed, 'plan.c09.degenerate.maps'), tier, 2)
            plan['modes'] = ['solve', 'solve_step', 'steps', 'while'] if tier != 'quick' else ['solve', 'while']
    r2 = sub_rng(seed, 'plan.c09.inst')
    if plan['nested_instance'] and r2.random() < 0.5:
        # the configured instance has no objective of its own: each ensemble it is handed to (one after the other, run to
        # completion -- the documented use) has its members minimise THAT ensemble's objective
        plan['instance_objective'] = False
        plan['modes'] = ['solve']
        if len(plan['maps']) < 2: plan['maps'] = plan['maps'] * 2
        # (the members then run the ensemble's DECORATED objective: its constraints and penalty come with it -- keep the plan to the box)
        plan['constraint'] = None; plan['penalty'] = None; plan['wrapper'] = False
    return plan


def run_plan(plan):
    run = env.Run(plan['seed'], budget=1500000)
    env.begin(run)
    run.fs = simfs.SimFS(run); run.fs.plant()
    V = []
    stats = {'variants': 0, 'members': 0, 'member_iters': 0, 'nonzero_winner': 0, 'tied_members': 0, 'generator_checks': 0}
    def violate(kind, detail, **tags):
        t = {'ensemble': plan['ensemble'], 'nested': plan['nested']}; t.update(tags)
        V.append(engine.Violation(ID, kind, plan['ensemble'], t, detail))
    try:
        with engine.patched_world(run):
            _run(plan, run, violate, stats)
    finally:
        run.fs.cleanup()
        env.end()
    tr = repr(canon(run.trace)) + repr(len(run.evals)) + repr(sorted(stats.items()))
    sig = hashlib.sha1(repr(run.sched_sigs).encode()).hexdigest() if run.sched_sigs else None
    return {'violations': V, 'digest': hashlib.sha1(tr.encode()).hexdigest(), 'probes': run.probes, 'fired': run.fired,
            'sim_s': 0.0, 'nontrivial': stats['members'] >= 2 and stats['member_iters'] >= 2, 'sched_sig': sig,
            'stats': dict(stats, cost_calls=len(run.evals), seam_crossings=run.ncross, switches=run.stats_switches)}


def expected_members(plan):
    if plan['ensemble'] == 'Lattice':
        nb = plan['nbins']
        return int(numpy.prod(nb)) if isinstance(nb, list) else int(nb)
    return plan['npts']

def cell_centres(plan):
    """independently computed Lattice starting points (explicit bins only)"""
    nb = plan['nbins']
    if not isinstance(nb, list): return None
    b = plan.get('bounds')
    lo = b['lo'] if b else [-1e3] * plan['dim']; hi = b['hi'] if b else [1e3] * plan['dim']
    axes = []
    for i in range(plan['dim']):
        step = 1. * abs(hi[i] - lo[i]) / nb[i]
        axes.append([lo[i] + (j + 0.5) * step for j in range(nb[i])])
    return [list(p) for p in itertools.product(*axes)]

def image(plan, x):
    """constrained/clipped image of a starting point (what a member evaluates first)"""
    x = tuple(float(v) for v in x)
    b = plan.get('bounds'); con = plan.get('constraint')
    tight = b and (b.get('tight') or b.get('clip') is not None)
    for _ in range(20):
        x0 = x
        if con: x = tuple(con_apply(con, list(x)))
        if tight: x = tuple(min(max(v, l), u) for v, l, u in zip(x, b['lo'], b['hi']))
        if x == x0: break
    return x


def check_variant(plan, run, s, peers, e0, mspec, mode, violate, stats):
    tags = {'map': (mspec or {}).get('mode', 'python_map'), 'mode': mode}
    evs = run.evals[e0:]
    members = list(s._allSolvers)
    n = len(members)
    want_n = expected_members(plan)
    if n != want_n or any(m is None for m in members):
        violate('member_count', '%d members (%d None), requested %d' % (n, sum(m is None for m in members), want_n), **tags)
        return
    stats['members'] += n
    allE = [canon(m.bestEnergy) for m in members]
    allX = [canon(m.bestSolution) for m in members]
    stats['member_iters'] += sum(m.generations for m in members)
    # (1) reduction to the best member
    fin = [e for e in allE if isinstance(e, float) and e == e]
    if fin:
        mn = min(fin)
        be = canon(s.bestEnergy)
        if not feq(be, mn):
            violate('best_not_min_of_members', 'bestEnergy=%r but the minimum over members is %r (members %r)' % (be, mn, allE), **tags)
        else:
            winners = [i for i, e in enumerate(allE) if feq(e, mn)]
            if len(winners) > 1: stats['tied_members'] += 1
            if winners[0] != 0: stats['nonzero_winner'] += 1
            bs = canon(s.bestSolution)
            if not any(feq(allX[i], bs) for i in winners):
                violate('best_solution_not_of_best_member', 'bestSolution=%r is not the solution %r of the best member(s) %r'
                        % (bs, [allX[i] for i in winners], winners), **tags)
    # (2) accounting
    tot = s._total_evals; per = list(s._all_evals)
    if tot != sum(per):
        violate('total_evals_ne_sum', '_total_evals=%r, sum(_all_evals)=%r' % (tot, sum(per)), **tags)
    if tot != len(evs):
        violate('total_evals_ne_calls', '_total_evals=%r but %d real cost calls were made (per member: counted %r, real %r)'
                % (tot, len(evs), per, [len([e for e in evs if e.task == i]) for i in range(n)]), **tags)
    elif mspec is not None:
        real = [len([e for e in evs if e.task == i]) for i in range(n)]
        if real != per:
            violate('total_evals_ne_calls', 'per-member evaluation counts %r, real cost calls per work item %r' % (per, real), **tags)
    # (2a) ... and they were calls of the objective given to THIS ensemble (the object itself, where the map hands it on by
    # reference; a configured nested instance with an objective of its own carries copies of it)
    if (mspec or {}).get('mode') != 'process' and plan.get('nested_instance') and plan.get('instance_objective') is False:
        mine_ = getattr(peers['cost'], 'ncalls', None)
        if mine_ is not None and mine_ != len(evs):
            violate('evaluations_not_of_given_objective', '%d real cost calls were made during this ensemble run, %d of them calls of the '
                    'objective this ensemble was given (_total_evals=%r)' % (len(evs), mine_, tot), **tags)
    # (2b) every member was actually started and did work
    idle = [i for i in range(n) if not per[i]]
    if idle:
        violate('member_never_started', 'members %r made no evaluation (per member: %r)' % (idle, per), **tags)
    # (3) starting points, box, constraint, penalty per member
    b = plan.get('bounds'); box = (tuple(b['lo']), tuple(b['hi'])) if b else None
    # (3a) Lattice given a number of bins: whatever layout is drawn, the members start at the centres of a grid with that many cells
    if plan['ensemble'] == 'Lattice' and not isinstance(plan['nbins'], list) and mspec is not None and plan['nested'] != 'DE' and plan.get('degenerate_axis') is None \
       and not plan.get('constraint') and not (b and (b.get('tight') or b.get('clip') is not None)):
        firsts = []
        for i in range(n):
            mine_ = [e for e in evs if e.task == i]
            if mine_: firsts.append(tuple(mine_[0].x))
        if len(firsts) == n:
            stats['lattice_layouts_checked'] = stats.get('lattice_layouts_checked', 0) + 1
            lo_ = b['lo'] if b else [-1e3] * plan['dim']; hi_ = b['hi'] if b else [1e3] * plan['dim']
            cells = 1; okgrid = True
            for d in range(plan['dim']):
                vals = sorted(set(p[d] for p in firsts)); nd = len(vals); cells *= nd
                step = 1. * abs(hi_[d] - lo_[d]) / nd
                want_axis = [lo_[d] + (j + 0.5) * step for j in range(nd)]
                if not all(abs(a - w) <= 1e-9 * max(1.0, abs(w)) for a, w in zip(vals, want_axis)): okgrid = False
            if cells != int(plan['nbins']) or len(set(firsts)) != n or not okgrid:
                violate('member_start_not_cell_centre', 'LatticeSolver(nbins=%d): the %d members started at %r, which are not the centres '
                        'of a grid with %d cells over %r..%r' % (plan['nbins'], n, sorted(set(firsts)), plan['nbins'], lo_, hi_), **tags)
    con = plan.get('constraint'); pen = plan.get('penalty')
    centres = cell_centres(plan) if plan['ensemble'] == 'Lattice' else None
    for i in range(n):
        mine = [e for e in evs if e.task == i] if mspec is not None else None
        if mine is None: break
        if not mine: continue
        first = mine[0].x
        if plan['nested'] == 'DE': pass
        else:
            if box and not in_box(first, box):
                violate('member_start_outside_ranges', 'member %d first evaluated %r, outside %r' % (i, first, box), **tags); break
            if centres is not None:
                want = image(plan, centres[i])
                inside = box is None or in_box(want, box)
                if inside and not feq(tuple(first), tuple(want)):
                    violate('member_start_not_cell_centre', 'member %d first evaluated %r; the centre of grid cell %d is %r '
                            '(image %r)' % (i, first, i, centres[i], want), **tags); break
        for e in mine:
            if box and not in_box(e.x, box):
                violate('member_ignores_bounds', 'member %d evaluated %r outside %r' % (i, e.x, box), **tags); break
            if con and tuple(con_apply(con, list(e.x))) != e.x:
                violate('member_ignores_constraints', 'member %d evaluated %r which the constraint maps to %r'
                        % (i, e.x, tuple(con_apply(con, list(e.x)))), **tags); break
        m = members[i]
        be = canon(m.bestEnergy); bx = canon(m.bestSolution)
        if isinstance(be, float) and finite(be):
            hits = [e for e in mine if feq(e.x, bx)]
            ok = any(feq(canon(reduce_energy(e.y, pen_apply(pen, e.x) if pen else 0.0, None)), be) for e in hits)
            if not ok:
                violate('member_ignores_penalty', 'member %d reports %r at %r; evaluations there give %r'
                        % (i, be, bx, [reduce_energy(e.y, pen_apply(pen, e.x) if pen else 0.0, None) for e in hits][:3]), **tags)
                break
        mi = plan['limits'][0]
        if mi is not None and plan['nested'] != 'Powell' and m.generations > mi:
            violate('member_ignores_limits', 'member %d ran %d generations, limit %d' % (i, m.generations, mi), **tags); break
        if plan.get('termination'):
            want_doc = getattr(s._termination, '__doc__', None)
            if mode != 'x' and getattr(m._termination, '__doc__', None) != want_doc and want_doc is not None:
                violate('member_ignores_termination', 'member %d termination %r, ensemble %r'
                        % (i, getattr(m._termination, '__doc__', None), want_doc), **tags); break


def _run(plan, run, violate, stats):
    variants = []
    for ms in plan['maps']:
        for m in plan['modes']:
            # a process-mode map pickles every member out and back per map call: the step-wise modes (one map call per
            # ensemble step) are only run under it when the run is short
            if ms.get('mode') == 'process' and m != 'solve' and ((plan.get('limits') or [None])[0] is None or plan['limits'][0] > 8): continue
            variants.append((ms, m))
    member_work = {}
    # one user-configured nested instance handed to every ensemble of this run, one after the other
    inst = ensembles.nested_instance(plan) if plan.get('nested_instance') else None
    for vi, (mspec, mode) in enumerate(variants):
        _random.seed(plan['lib_seed']); numpy.random.seed(plan['lib_seed'] % (2 ** 32))
        s, peers = ensembles.build_ensemble(plan, run, mspec, instance=inst)
        e0 = len(run.evals); b0 = run.ncross
        try:
            run.budget = b0 + 200000
            # every member stops at the generation limit G at the latest: an ensemble needs at most G+2 map calls
            G = (plan.get('limits') or [None])[0]
            run.map_budget = (run.counts['map'] + G + 6) if G is not None else None
            ensembles.drive(s, peers, plan, run, mode, (G + 6) if G is not None else 400)
            run.map_budget = None
            if mode == 'steps' and G is not None and not s.Terminated():
                violate('ensemble_did_not_return', 'under map %r: a manual Step loop of %d steps did not terminate an ensemble whose '
                        'generation limit is %d' % (mspec, G + 6, G), map=mspec['mode'], mode=mode)
                return
        except env.SimHang as e:
            run.map_budget = None
            violate('ensemble_did_not_return', 'under map %r in mode %s: %s' % (mspec, mode, str(e)[:160]), map=mspec['mode'], mode=mode)
            run.budget = run.ncross + 500000
            return
        except env.SimCrash:
            raise
        except Exception as e:
            violate('ensemble_raised', 'under map %r in mode %s: %s: %s' % (mspec, mode, type(e).__name__, str(e)[:200]),
                    map=mspec['mode'], mode=mode)
            continue
        run.budget = run.ncross + 500000
        stats['variants'] += 1
        check_variant(plan, run, s, peers, e0, mspec, mode, violate, stats)
        try:
            if mode in ('while', 'steps') and G is None and not s.Terminated():
                run.probe('c09.manual_loop_cut_by_harness'); raise ValueError('loop cut by the harness cap: not comparable')
            member_work[(repr(sorted(mspec.items())), mode)] = (tuple(int(m_.generations) for m_ in s._allSolvers),
                                                                 tuple(int(v_) for v_ in s._all_evals))
        except Exception:
            pass
    # the members are subject to the limits the ensemble was given, whichever way the ensemble is driven: the work each
    # member did (iterations, evaluations, stop) must not depend on the drive mode
    for ms_ in (plan['maps'] if plan['nested'] != 'DE' else []):      # (DE members draw random numbers: not comparable across modes)
        key = repr(sorted(ms_.items()))
        got = [(m_, v_) for (k_, m_), v_ in member_work.items() if k_ == key]
        for m_, v_ in got[1:]:
            if v_ != got[0][1]:
                violate('member_ignores_limits', 'under map %r the members did different work in mode %s than in mode %s: (iterations, '
                        'evaluations, limits) %r vs %r' % (ms_.get('mode'), m_, got[0][0], v_, got[0][1]), map=ms_['mode'], mode=m_,
                        limits_unset=bool(plan.get('limits') and plan['limits'][0] is None and plan['limits'][1] is None))
                break
    if plan.get('wrapper'): wrapper(plan, run, violate, stats)
    if plan.get('generators'): generators(plan, run, violate, stats)


def wrapper(plan, run, violate, stats):
    """lattice / buckshot one-liners: the returned tuple obeys the same reduction and accounting"""
    import mystic.ensemble as me
    import mystic.solvers as ms
    from ..env import SimCost, SimConstraint, SimPenalty
    b = plan.get('bounds')
    if not b: return
    _random.seed(plan['lib_seed']); numpy.random.seed(plan['lib_seed'] % (2 ** 32))
    cost = SimCost(plan['cost'])
    kw = dict(bounds=list(zip(b['lo'], b['hi'])), maxiter=plan['limits'][0], maxfun=plan['limits'][1], full_output=1, disp=0,
              solver=getattr(ms, ensembles.NESTED[plan['nested'] if plan['nested'] != 'DE' else 'NM']),
              map=maps.make_map(dict(plan['maps'][0], salt=99)))
    if plan.get('constraint'): kw['constraints'] = SimConstraint(plan['constraint'])
    if plan.get('penalty'): kw['penalty'] = SimPenalty(plan['penalty'])
    e0 = len(run.evals)
    try:
        if plan['ensemble'] == 'Lattice':
            nb = plan['nbins'] if not isinstance(plan['nbins'], list) else tuple(plan['nbins'])
            out = me.lattice(cost, plan['dim'], nbins=nb, **kw)
        else:
            out = me.buckshot(cost, plan['dim'], npts=plan['npts'], **kw)
    except (env.SimHang, env.SimCrash):
        raise
    except Exception as e:
        violate('ensemble_raised', 'wrapper raised %s: %s' % (type(e).__name__, str(e)[:200]), mode='wrapper'); return
    x, fval, iters, fcalls, warnflag, all_fcalls = out[:6]
    evs = run.evals[e0:]
    if all_fcalls != len(evs):
        violate('total_evals_ne_calls', 'wrapper returned all_fcalls=%r, %d real cost calls' % (all_fcalls, len(evs)), mode='wrapper')
    fv = canon(fval)
    if isinstance(fv, float) and finite(fv):
        pen = plan.get('penalty')
        hits = [e for e in evs if feq(e.x, canon(x))]
        if not any(feq(canon(reduce_energy(e.y, pen_apply(pen, e.x) if pen else 0.0, None)), fv) for e in hits):
            violate('best_solution_not_of_best_member', 'wrapper returned x=%r fval=%r; evaluations at x: %r'
                    % (canon(x), fv, [e.y for e in hits][:3]), mode='wrapper')
        best_seen = min((reduce_energy(e.y, pen_apply(pen, e.x) if pen else 0.0, None) for e in evs), default=None)


def generators(plan, run, violate, stats):
    from mystic.math import gridpts, samplepts
    from mystic.math.grid import randomly_bin
    from mystic.math.samples import random_samples
    rng = sub_rng(plan['seed'], 'gens')
    q = [[gen.r2(rng, -5, 5) for _ in range(rng.randint(1, 4))] for _ in range(rng.randint(1, 4))]
    g = gridpts(q)
    stats['generator_checks'] += 1
    if [list(p) for p in g] != [list(p) for p in itertools.product(*q)]:
        violate('grid_not_cartesian', 'gridpts(%r) = %r' % (q, g), mode='generator')
    dim = rng.randint(1, 4)
    lo = [gen.r2(rng, -5, 0) for _ in range(dim)]; hi = [l + rng.choice([0.0, 0.5, 3.0]) for l in lo]
    npts = rng.randint(1, 7)
    pts = samplepts(lo, hi, npts)
    if len(pts) != npts or any(not in_box(p, (lo, hi)) for p in pts):
        violate('sample_outside_range', 'samplepts(%r,%r,%d) = %r' % (lo, hi, npts, pts), mode='generator')
    rs = random_samples(lo, hi, npts)
    if rs.shape != (dim, npts) or any(not in_box(p, (lo, hi)) for p in rs.T.tolist()):
        violate('sample_outside_range', 'random_samples(%r,%r,%d) shape %r' % (lo, hi, npts, rs.shape), mode='generator')
    # ... and with a user-supplied sampling distribution (broad compared with the box: draws, and re-draws, fall outside)
    from mystic.math import Distribution
    lo2 = [gen.r2(rng, -5, 0) for _ in range(dim)]; hi2 = [l + rng.choice([0.5, 1.0, 3.0]) for l in lo2]
    loc = rng.choice([0.0, 1.0, -2.0]); scale = rng.choice([0.5, 2.0, 5.0])
    try:
        d = Distribution('numpy.random.normal', loc, scale)
        dd = d if rng.random() < 0.5 else [Distribution('numpy.random.normal', loc, scale) for _ in range(dim)]
        pts = samplepts(list(lo2), list(hi2), npts, dd)
        stats['generator_checks'] += 1
        if len(pts) != npts or any(not in_box(p, (lo2, hi2)) for p in pts):
            violate('sample_outside_range', 'samplepts(%r,%r,%d, dist=normal(%r,%r)) = %r' % (lo2, hi2, npts, loc, scale, pts), mode='generator', dist=True)
        rs = random_samples(list(lo2), list(hi2), npts, dd, clip=rng.random() < 0.3)
        if any(not in_box(p, (lo2, hi2)) for p in numpy.asarray(rs).T.tolist()):
            violate('sample_outside_range', 'random_samples(%r,%r,%d, dist=normal(%r,%r)) left the ranges: %r'
                    % (lo2, hi2, npts, loc, scale, numpy.asarray(rs).T.tolist()[:4]), mode='generator', dist=True)
    except RuntimeError:
        stats['generator_gave_up'] = stats.get('generator_gave_up', 0) + 1      # 'bounds could not be applied in n iterations': loud, allowed
    N = rng.choice([1, 2, 4, 6, 8, 12]); nd = rng.randint(1, 3)
    bins = randomly_bin(N, nd, ones=True, exact=True)
    if len(bins) != nd or int(numpy.prod(bins)) != N:
        violate('member_count', 'randomly_bin(%d,%d,exact=True) = %r' % (N, nd, list(bins)), mode='generator')


def simplify(plan):
    if len(plan['maps']) > 1:
        for m in plan['maps']:
            p = dict(plan); p['maps'] = [m]
            yield p
    if len(plan['modes']) > 1:
        for m in plan['modes']:
            p = dict(plan); p['modes'] = [m]
            yield p
    for key in ('constraint', 'penalty', 'termination', 'wrapper', 'generators'):
        if plan.get(key):
            p = dict(plan); p[key] = None
            yield p
