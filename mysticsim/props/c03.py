from .. import solverplan, oracles
ID = 'C03'
LEVEL = 'exploration'
REQUIRED_PROBES = ['c03.evals_checked_against_constraint']
RUNS = {'quick': 1500, 'thorough': 120000}
WALL = {'quick': 120, 'thorough': 1500}
REAL = ["mystic solvers, tools.wrap_*, constraints.and_/boundsconstrain, symbolic bounds (sympy), termination, monitors"]
STUB = ["cost, constraints, penalty, callback (scripted peers)", "clocks", "signal/tty", "file open() proxy"]
valid = solverplan.valid_solver_plan
simplify = solverplan.simplify_solver_plan

RULE = ("seeded op sequences with idempotent box-compatible constraints (pin/clamp/round/tie/sort; pure, in-place, aliasing forms) "
        "installed before or during the run, runs stopped early by limits/termination; every logged cost argument and the reported "
        "solution are tested as fixed points of the installed constraint; non-trivial = >1 _Step and cost call; distinct = trace digests")
ASSUMPTIONS = ["constraints deterministic, idempotent, box-compatible (generator + plan validity check)",
               "range mode clip=False (randomising) is excluded, as the property states"]
LEVEL_TEXT = ("seeded search over constraint families/forms, solvers, range modes, installation times and stop points; "
              "fixed-point test of every real cost argument and of the reported solution against the installed constraint itself")
LEVEL_NOTE = "trusts the scripted peers' call log; sampling, not proof"
KNOBS = dict(p_bounds=0.4, p_constraint=0.9, p_penalty=0.2, p_vector=0.05, p_limits=0.8, p_midrun_set=0.4,
             midrun_sets=('constraint', 'constraint', 'limits', 'penalty', 'termination'), max_ops=7)
ORACLES = [oracles.ConstraintOracle]

def _gen_plan(seed, tier):
    from ..env import sub_rng
    r7 = sub_rng(seed, 'plan.c03.sigint')
    if r7.random() < 0.08:
        # 'wherever the run is stopped': Ctrl-C while an iteration is in progress, mystic's handler enabled, the user answers 'exit' at
        # the prompt (the run ends after the work in progress) -- the reported solution is still the constrained point with its energy
        plan = solverplan.gen_solver_plan(seed, tier, ID, dict(KNOBS, solvers=['Powell', 'Powell', 'NM', 'DE', 'DE2'], p_handler=1.0, p_solve=0.0,
                                                                p_constraint=1.0, p_term=0.3, p_limits=0.3, p_midrun_set=0.0, max_ops=1, small_limits=False))
        plan['ops'] = [o for o in plan['ops'] if o['op'] == 'set']
        plan['ops'].append({'op': 'solve'})      # (the handler is armed by Solve, not by Step)
        plan['faults'] = [{'at': 'cost#%d' % a, 'kind': 'interrupt', 'tty': r7.choice([['exit'], ['exit'], ['exit'], ['cont'], ['sol', 'exit']])}
                          for a in sorted(set(r7.randint(2, 80) for _ in range(r7.choice([1, 1, 2]))))]
        return plan
    return solverplan.gen_solver_plan(seed, tier, ID, KNOBS)

def _run_plan(plan):
    return solverplan.run_solver_plan(plan, ORACLES)


# ---- the one-liner interfaces named by the property (fmin, fmin_powell, diffev, diffev2, lattice, buckshot)
from .. import wrappers as _wr
from ..env import sub_rng as _sub_rng
P_WRAPPER = 0.1

def gen_plan(seed, tier):
    if _sub_rng(seed, 'plan.kind.wrapper').random() < P_WRAPPER:
        return _wr.gen_wrapper_plan(seed, tier, ID, interrupts=(ID == 'C05'))
    return _gen_plan(seed, tier)

def run_plan(plan):
    if plan.get('kind') == 'wrapper': return _wr.run_wrapper_plan(plan, (ID,))
    return _run_plan(plan)

_valid0 = valid
_simplify0 = simplify
def valid(plan):
    if plan.get('kind') == 'wrapper': return True
    if any(f.get('kind') == 'interrupt' for f in plan.get('faults', [])):
        # (an interrupt with no handler armed -- the handler is armed by Solve only -- is a KeyboardInterrupt that ends the user's program)
        first = next((i for i, o in enumerate(plan['ops']) if o['op'] in ('step', 'solve')), len(plan['ops']))
        if not any(o['op'] == 'set' and o['what'] == 'handler' and o.get('arg') for o in plan['ops'][:first]): return False
        if any(o['op'] == 'step' for o in plan['ops']): return False
    return True if _valid0 is None else _valid0(plan)
def simplify(plan):
    if plan.get('kind') == 'wrapper': return _wr.simplify_wrapper_plan(plan)
    return _simplify0(plan)
