"""C04 -- best-so-far never worsens; counters, monitors and callbacks are faithful."""
from .. import solverplan, oracles

ID = 'C04'
LEVEL = 'exploration'
RUNS = {'quick': 1500, 'thorough': 40000}
WALL = {'quick': 90, 'thorough': 1200}
RULE = ("seeded op sequences (Set*/Step/Solve/Finalize, mid-run reconfiguration, stop-and-resume) over "
        "NM/Powell/DE/DE2 with scripted cost/constraint/penalty peers; a run is non-trivial when it "
        "executed more than one _Step and more than one cost call; distinct = distinct trace digests")
ASSUMPTIONS = ["constraints are drawn from deterministic idempotent box-compatible families",
               "step monitors are replaced mid-run only with new=False (the property says monitors start empty)",
               "evaluation-monitor contents are checked only with the default in-process map",
               "costs that return nan are excluded (a nan best makes 'non-increasing' undefined)"]
REAL = ["mystic solvers, termination, monitors, tools.wrap_*", "files behind LoggingMonitor (real files via proxy)"]
STUB = ["cost, constraints, penalty, callback (scripted peers)", "clocks", "signal/tty", "file open() proxy"]

KNOBS = dict(p_vector=0.08, p_resume=0.4)

def gen_plan(seed, tier):
    return solverplan.gen_solver_plan(seed, tier, ID, KNOBS)

def run_plan(plan):
    return solverplan.run_solver_plan(plan, [oracles.CounterModel])

simplify = solverplan.simplify_solver_plan
valid = solverplan.valid_solver_plan
LEVEL_TEXT = ("seeded search over API histories (Set*/Step/Solve/Finalize incl. mid-run reconfiguration and stop/resume) "
              "with a CounterModel reference checked after every operation and at every iteration boundary; sampling, not proof")
LEVEL_NOTE = ("trusts the scripted peers' call log as ground truth for 'real cost calls'; a clean batch is evidence, not proof; "
              "Powell's re-finalize bookkeeping is a listed known finding")
