"""C04 -- best-so-far never worsens; counters, monitors and callbacks are faithful."""
from .. import solverplan, oracles
from ..env import sub_rng

ID = 'C04'
LEVEL = 'exploration'
RUNS = {'quick': 1500, 'thorough': 120000}
WALL = {'quick': 90, 'thorough': 1200}
RULE = ("seeded op sequences (Set*/Step/Solve/Finalize, mid-run reconfiguration, stop-and-resume) over "
        "NM/Powell/DE/DE2 with scripted cost/constraint/penalty peers; a run is non-trivial when it "
        "executed more than one _Step and more than one cost call; distinct = distinct trace digests")
ASSUMPTIONS = ["under an injected ENOSPC/EIO on a LoggingMonitor file the oracle is relaxed to: the error reaches the caller, the evaluation "
               "counter still equals the real calls, each log file holds the in-memory records or lacks only the one in flight; the plan "
               "ends there (fault-free and fault-injecting runs are generated from disjoint seeds and counted separately in faults_fired)",
               "constraints are drawn from deterministic idempotent box-compatible families",
               "step monitors are replaced mid-run only with new=False (the property says monitors start empty)",
               "evaluation-monitor contents are checked only with the default in-process map",
               "costs that return nan are excluded (a nan best makes 'non-increasing' undefined)",
               "a cost call that raises (injected) has begun and counts as a call; the caller handles the exception and, in most such plans, "
               "steps again: 'best <= min over everything evaluated in the epoch' is then asserted for DE/DE2/NM on plain configurations "
               "(no bounds/constraint/reducer), with the listed findings for DE2's aborted map, DE's restarted generation 0 and Powell's aborted step",
               "Step(EvaluationMonitor=m)/Step(StepMonitor=m) are treated as the equivalent Set*Monitor(m, new=False) made before the iteration"]
REAL = ["mystic solvers, termination, monitors, tools.wrap_*", "files behind LoggingMonitor (real files via proxy)"]
STUB = ["cost, constraints, penalty, callback (scripted peers)", "clocks", "signal/tty", "file open() proxy"]

KNOBS = dict(p_vector=0.08, p_resume=0.4, p_logging=0.25)

RETRY_KNOBS = dict(KNOBS, solvers=['DE', 'DE', 'DE', 'NM', 'NM', 'DE2', 'Powell'], p_bounds=0.1, p_constraint=0.1, p_term=0.2, p_limits=0.2,
                   p_midrun_set=0.1, p_solve=0.2, max_step_n=4, p_vector=0.0, small_limits=False)

def _gen_plan(seed, tier):
    r0 = sub_rng(seed, 'plan.c04.retry')
    if r0.random() < 0.12:
        # dedicated 'the cost fails a few times, the caller handles it and steps again' histories, on plain configurations
        plan = solverplan.gen_solver_plan(seed, tier, ID, RETRY_KNOBS)
        plan['continue_after_fault'] = True
        ats = sorted(set(r0.randint(3, 90) for _ in range(r0.choice([2, 3, 4, 5]))))
        plan['faults'] = [{'at': 'cost#%d' % a, 'kind': 'raise', 'msg': 'injected failure of the cost function'} for a in ats]
        plan['ops'] += [{'op': 'step', 'n': r0.randint(2, 4)} for _ in range(r0.randint(1, 3))]
        return plan
    r6 = sub_rng(seed, 'plan.c04.monkw')
    if r6.random() < 0.08:
        # monitors handed over as keywords of the very Step that runs the next iteration (Step(EvaluationMonitor=m), Step(StepMonitor=m)),
        # on a run that is under way and not about to stop
        plan = solverplan.gen_solver_plan(seed, tier, ID, dict(RETRY_KNOBS, p_monitors=0.5, p_logging=0.0, p_solve=0.0, p_term=0.0, p_limits=0.0,
                                                                p_midrun_set=0.0, max_ops=2))
        for _ in range(r6.randint(1, 3)):
            plan['ops'].append({'op': 'step', 'n': r6.randint(1, 4)})
            key = r6.choice(['evalmon_kw', 'evalmon_kw', 'stepmon_kw'])
            plan['ops'].append({'op': 'step', 'n': 1, key: {'kind': 'Monitor', 'file': '%s%d.log' % (key[:4], _)}})
            plan['ops'].append({'op': 'step', 'n': r6.randint(1, 3)})
        return plan
    r7 = sub_rng(seed, 'plan.c04.sigint')
    if r7.random() < 0.08:
        # Ctrl-C while an iteration is in progress, with mystic's signal handler enabled and the user answering at its prompt ('exit'
        # ends the run after the iteration in progress; 'cont'/'sol'/'call' carry on): counters, monitors and callbacks of the run that
        # was stopped this way are those of any stopped run
        plan = solverplan.gen_solver_plan(seed, tier, ID, dict(RETRY_KNOBS, solvers=['Powell', 'Powell', 'NM', 'DE', 'DE2'], p_handler=1.0, p_solve=0.0,
                                                                p_term=0.3, p_limits=0.3, p_midrun_set=0.0, max_ops=1))
        plan['ops'] = [o for o in plan['ops'] if o['op'] == 'set']
        plan['ops'].append({'op': 'solve'})      # (the handler is armed by Solve, not by Step)
        if r7.random() < 0.4: plan['ops'] += [{'op': 'set', 'what': 'limits', 'arg': [r7.choice([3, 8]), None, True]}, {'op': 'solve'}]
        plan['faults'] = [{'at': 'cost#%d' % a, 'kind': 'interrupt', 'tty': r7.choice([['exit'], ['exit'], ['exit'], ['cont'], ['sol', 'exit'], ['call', 'cont']])}
                          for a in sorted(set(r7.randint(2, 120) for _ in range(r7.choice([1, 1, 2]))))]
        return plan
    plan = solverplan.gen_solver_plan(seed, tier, ID, KNOBS)
    # fault-injecting configuration (reported separately in the evidence: faults_fired): an ENOSPC / EIO on a write
    # of a LoggingMonitor file.  The plan ends where the error reaches the caller.
    r3 = sub_rng(seed, 'plan.c04.collapse')
    if r3.random() < 0.1:
        # a run whose termination holds a collapse condition: Solve() applies the collapse and carries on -- the callback,
        # the counters and the monitors have to stay faithful across that internal restart
        term = {'t': 'Or', 'of': [{'t': 'COG', 'kw': {'tolerance': r3.choice([1e-10, 1e-6]), 'generations': r3.choice([10, 20])}},
                                  {'t': r3.choice(['CollapseAt', 'CollapseAt', 'CollapseAs']),
                                   'kw': {'tolerance': r3.choice([1e-3, 1e-2, 0.1, 1.0]), 'generations': r3.choice([1, 2, 3, 5])}}]}
        ops = [o for o in plan['ops'] if not (o['op'] == 'set' and o['what'] in ('termination', 'constraint'))]
        if any(o['op'] == 'set' and o['what'] == 'bounds' and o.get('arg') for o in ops):
            term['of'][1]['t'] = 'CollapseAt'      # (a tie across unequal box sides is not box-compatible; a fix at the current value is)
        first = next((i for i, o in enumerate(ops) if o['op'] in ('step', 'solve')), len(ops))
        ops.insert(first, {'op': 'set', 'what': 'termination', 'arg': term})
        if not any(o['op'] == 'set' and o['what'] == 'limits' and o['arg'][0] is not None for o in ops[:first]):
            ops.insert(first, {'op': 'set', 'what': 'limits', 'arg': [r3.choice([20, 40, 60]), None, False]})
        ops.insert(first + 2, {'op': 'solve'})
        plan['ops'] = ops
    r4 = sub_rng(seed, 'plan.c04.save')
    if r4.random() < 0.15:
        # periodic restart dumps while the run goes on: taking a dump must not disturb counters, monitors or callbacks
        first = next((i for i, o in enumerate(plan['ops']) if o['op'] in ('step', 'solve')), len(plan['ops']))
        plan['ops'].insert(r4.randint(1, max(1, first)), {'op': 'set', 'what': 'save', 'arg': {'every': r4.choice([1, 1, 2, 3]), 'file': 'restart.pkl'}})
        # (a dump per generation is slow: no run-to-default-limits Solve in these plans)
        g = r4.choice([6, 12, 25, 40])
        for o in plan['ops']:
            if o['op'] == 'set' and o['what'] == 'limits' and (o['arg'][0] is None or o['arg'][0] > 40): o['arg'][0] = g
        first = next((i for i, o in enumerate(plan['ops']) if o['op'] in ('step', 'solve')), len(plan['ops']))
        if not any(o['op'] == 'set' and o['what'] == 'limits' for o in plan['ops'][:first]):
            plan['ops'].insert(first, {'op': 'set', 'what': 'limits', 'arg': [g, None, False]})
    logging = any(o['op'] == 'set' and o['what'] in ('stepmon', 'evalmon') and (o.get('arg') or {}).get('kind') == 'Logging'
                  for o in plan['ops'])
    rng = sub_rng(seed, 'fault')
    if logging and rng.random() < 0.5:
        plan['faults'] = [{'at': 'fs.write#%d' % rng.randint(2, 40), 'kind': rng.choice(['enospc', 'eio'])}]
    elif rng.random() < 0.22:
        # the user's cost fails (once, or a few times), loudly, from inside a call that has begun (it counts as a call)
        plan['continue_after_fault'] = rng.random() < 0.75      # the caller handles it and carries on with the plan (retries the step)
        nf = rng.choice([1, 2, 3, 4]) if plan['continue_after_fault'] else 1
        ats = sorted(set(rng.randint(1, 90) for _ in range(nf)))
        plan['faults'] = [{'at': 'cost#%d' % a, 'kind': 'raise', 'msg': 'injected failure of the cost function'} for a in ats]
    return plan

def _run_plan(plan):
    return solverplan.run_solver_plan(plan, [oracles.CounterModel])

simplify = solverplan.simplify_solver_plan
valid = solverplan.valid_solver_plan
LEVEL_TEXT = ("seeded search over API histories (Set*/Step/Solve/Finalize incl. mid-run reconfiguration and stop/resume) "
              "with a CounterModel reference checked after every operation and at every iteration boundary; sampling, not proof")
LEVEL_NOTE = ("trusts the scripted peers' call log as ground truth for 'real cost calls'; a clean batch is evidence, not proof; "
              "Powell's re-finalize bookkeeping is a listed known finding")


# ---- the one-liner interfaces named by the property (fmin, fmin_powell, diffev, diffev2, lattice, buckshot)
from .. import wrappers as _wr
from ..env import sub_rng as _sub_rng
P_WRAPPER = 0.1

def gen_plan(seed, tier):
    if _sub_rng(seed, 'plan.kind.wrapper').random() < P_WRAPPER:
        return _wr.gen_wrapper_plan(seed, tier, ID, interrupts=(ID == 'C05'))
    return _gen_plan(seed, tier)

def run_plan(plan):
    if plan.get('kind') == 'wrapper': return _wr.run_wrapper_plan(plan, (ID,))
    return _run_plan(plan)

_valid0 = valid
_simplify0 = simplify
def valid(plan):
    if plan.get('kind') == 'wrapper': return True
    # (an interrupt with no handler installed is a KeyboardInterrupt that kills the user's program in mid-iteration: not a history of C04)
    if any(f.get('kind') == 'interrupt' for f in plan.get('faults', [])):
        first = next((i for i, o in enumerate(plan['ops']) if o['op'] in ('step', 'solve')), len(plan['ops']))
        if not any(o['op'] == 'set' and o['what'] == 'handler' and o.get('arg') for o in plan['ops'][:first]): return False
        if any(o['op'] == 'step' for o in plan['ops']): return False       # (the handler is armed by Solve only)
    return True if _valid0 is None else _valid0(plan)
def simplify(plan):
    if plan.get('kind') == 'wrapper': return _wr.simplify_wrapper_plan(plan)
    return _simplify0(plan)
