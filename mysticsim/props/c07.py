"""C07 -- results depend only on configuration and seed, not on call order or schedule.

Three experiment kinds per seed:
  perm      the configuration as a SET of Set* calls, executed in several seeded permutations
            (variant A: seed once, initial points first, the rest permuted; variant B: initial points
            anywhere, random_seed(s) right before it and again right before the first Step)
  de2       DifferentialEvolutionSolver2 under python_map (baseline) and under every SimMap mode
            (serial, reversed, shuffled, threads with seeded interleaving and line pre-emption,
            process = dill boundary + isolated worker RNG)
  ensemble  Lattice / Buckshot (NM or Powell members) under every map mode, in run-to-completion,
            Solve(step=True) and manual Step-loop mode
Oracle: complete per-step trajectories are identical across the variants of one experiment.
"""
import hashlib, random as _random
import numpy
from .. import env, engine, observe, solverplan, gen, ensembles, maps, fs as simfs
from ..env import sub_rng
from ..observe import first_diff, canon

ID = 'C07'
LEVEL = 'exploration'
RUNS = {'quick': 500, 'thorough': 12000}
WALL = {'quick': 240, 'thorough': 2400}
RULE = ("per seed one experiment: (perm) up to 6 seeded permutations of the Set* calls of a sampled configuration; (de2) DE2 under "
        "python_map vs serial/reversed/shuffled/threaded(1..8 workers, seeded baton scheduling at seam crossings, optional line-level "
        "pre-emption)/process(dill boundary, isolated RNG) maps; (ensemble) Lattice/Buckshot with NM/Powell members under the same maps "
        "in Solve / Solve(step=True) / manual Step mode; whole per-step trajectories compared; non-trivial = at least two variants ran "
        ">= 2 steps; distinct = trace digests; distinct schedules = distinct recorded baton sequences")
ASSUMPTIONS = ["evaluation-MONITOR contents under a non-default map are out of scope (mystic replaces the monitor by Null there; C04's precondition)",
               "ensemble members are NM/Powell (they draw no random numbers while running), as the property states",
               "real parallel maps (pathos/multiprocess/MPI) are not installed: SimMap reproduces their contract (ordering, pickling boundary, isolation), not their code"]
REAL = ["mystic solvers (DE2, Lattice, Buckshot, NM, Powell), abstract_ensemble_solver map/reduce, python_map, dill"]
STUB = ["the map (SimMap: order, interleaving of real threads under a seeded baton scheduler, dill process boundary)",
        "cost/constraint/penalty/callback peers", "library RNG seeding"]
LEVEL_TEXT = ("seeded search over Set* permutations and over map schedules (item order, thread interleavings decided by a seeded baton "
              "scheduler at seam crossings and seeded line events, process boundary); trajectories compared field by field")
LEVEL_NOTE = ("pre-emption granularity is seam crossings plus a seeded subset of source lines of /repo/mystic, not bytecodes; "
              "schedules are sampled, not enumerated")
RUN_WALL = 400
OPS_KEY = 'none'

PERM_KNOBS = dict(p_term=0.6, p_limits=0.5, p_midrun_set=0.0, p_solve=0.0, p_finalize=0.0, max_ops=0, p_vector=0.08,
                  p_bounds=0.5, p_constraint=0.3, p_penalty=0.4, p_monitors=0.6, p_logging=0.0, max_dim=3,
                  cost_models=['quad', 'quad', 'rosen', 'abs', 'quant', 'maxabs', 'infband'], p_clipfalse=0.1)

def gen_plan(seed, tier):
    rng = sub_rng(seed, 'plan.c07')
    kind = rng.choice(['perm', 'perm', 'de2', 'de2', 'ensemble', 'ensemble', 'ensemble'])
    if kind == 'perm':
        plan = solverplan.gen_solver_plan(seed, tier, ID, PERM_KNOBS)
        conf = [o for o in plan['ops'] if o['op'] == 'set']
        plan['ops'] = conf
        plan['kind'] = 'perm'
        plan['nsteps'] = rng.randint(2, 8)
        nperm = rng.randint(2, 6 if tier == 'quick' else 10)
        perms = []
        rest = list(range(1, len(conf)))
        for i in range(nperm):
            variant = rng.choice(['A', 'B'])
            if variant == 'A':
                r = rest[:]; rng.shuffle(r); order = [0] + r
            else:
                order = list(range(len(conf))); rng.shuffle(order)
            perms.append({'variant': variant, 'order': order})
        perms[0] = {'variant': 'A', 'order': list(range(len(conf)))}
        plan['perms'] = perms
        # a solver that has already been run (the same few steps from the same start in every variant) before it is
        # reconfigured: the order of the Set* calls made for the second run must not matter either
        r2 = sub_rng(seed, 'plan.c07.prerun')
        if r2.random() < 0.35 and conf and conf[0]['what'] == 'init': plan['prerun'] = r2.randint(1, 4)
        return plan
    if kind == 'de2':
        knobs = dict(PERM_KNOBS, solvers=['DE2'], p_bounds=0.7, p_monitors=0.7)
        plan = solverplan.gen_solver_plan(seed, tier, ID, knobs)
        plan['ops'] = [o for o in plan['ops'] if o['op'] == 'set']
        plan['kind'] = 'de2'
        plan['nsteps'] = rng.randint(2, 8)
        plan['maps'] = ensembles.map_specs(rng, tier, 3)
        return plan
    plan = ensembles.gen_ensemble_plan(rng, seed, tier, ID)
    plan['kind'] = 'ensemble'
    plan['maps'] = ensembles.map_specs(rng, tier, 2)
    plan['instance_order'] = sub_rng(seed, 'plan.c07.inst').random() < 0.25
    plan['modes'] = ['solve', 'solve_step', 'steps', 'while'] if rng.random() < 0.5 else ['solve', 'steps', 'while']
    if plan['limits'][0] is None:
        plan['maps'] = [{'mode': rng.choice(['serial', 'shuffled', 'reversed']), 'salt': 0}]
        plan['modes'] = ['solve', 'while']
    return plan


IGNORE_DE2 = ('evalmon',)        # see ASSUMPTIONS

def strip(s, ignore=()):
    d = dict(s)
    for k in list(d):
        if k.startswith('_') or k in ('earlyexit', 'maxiter', 'maxfun') or k in ignore: d.pop(k)
    for m in ('stepmon', 'evalmon'):
        if d.get(m):
            mm = dict(d[m]); mm.pop('info', None); d[m] = mm
    return d


def run_plan(plan):
    run = env.Run(plan['seed'], budget=600000)
    env.begin(run)
    run.fs = simfs.SimFS(run); run.fs.plant()
    V = []
    stats = {'variants': 0, 'steps': 0, 'maps_called': 0}
    def violate(kind, detail, **tags):
        V.append(engine.Violation(ID, kind, tags.pop('where', plan.get('solver') or plan.get('ensemble')), tags, detail))
    try:
        with engine.patched_world(run):
            if plan['kind'] == 'perm': run_perm(plan, run, violate, stats)
            elif plan['kind'] == 'de2': run_de2(plan, run, violate, stats)
            else: run_ens(plan, run, violate, stats)
    finally:
        run.fs.cleanup()
        env.end()
    stats['maps_called'] = run.counts['map']
    stats['switches'] = run.stats_switches; stats['line_events'] = run.stats_lines
    tr = repr(canon(run.trace)) + repr(len(run.evals)) + repr(sorted(stats.items()))
    sig = hashlib.sha1(repr(run.sched_sigs).encode()).hexdigest() if run.sched_sigs else None
    return {'violations': V, 'digest': hashlib.sha1(tr.encode()).hexdigest(), 'probes': run.probes, 'fired': run.fired,
            'sim_s': 0.0, 'nontrivial': stats['variants'] >= 2 and stats['steps'] >= 4, 'sched_sig': sig,
            'stats': dict(stats, cost_calls=len(run.evals), seam_crossings=run.ncross)}


def run_steps(h, n, snaps, ignore=()):
    for i in range(n):
        r = h.do({'op': 'step', 'n': 1})
        snaps.append(strip(h.snap(), ignore))
        if r.get('exc'): snaps[-1]['_exc'] = r['exc']; break


def run_perm(plan, run, violate, stats):
    conf = plan['ops']
    base = None
    for pi, perm in enumerate(plan['perms']):
        run.fs.subdir = 'perm%d' % pi
        h = engine.Harness(run, plan, [])
        h.build()
        if plan.get('prerun'):
            h.do(conf[0]); h.do({'op': 'step', 'n': plan['prerun']}); run.probe('c07.reused_solver')
        for idx in perm['order']:
            op = conf[idx]
            if perm['variant'] == 'B' and op['what'] == 'init': h.do({'op': 'reseed'})
            h.do(op)
        if perm['variant'] == 'B': h.do({'op': 'reseed'})
        else:
            # variant A seeds once (in build); draws made by the Set* calls are part of what is compared
            pass
        snaps = []
        run_steps(h, plan['nsteps'], snaps)
        stats['variants'] += 1; stats['steps'] += len(snaps)
        key = perm['variant']
        if base is None: base = {}
        if key not in base:
            base[key] = (pi, snaps)
            continue
        p0, s0 = base[key]
        d = first_diff({'t': tuple(canon(list(x.items())) for x in s0)}, {'t': tuple(canon(list(x.items())) for x in snaps)})
        if d:
            dd = None
            for k, (a, b) in enumerate(zip(s0, snaps)):
                dd = first_diff(a, b)
                if dd: dd = 'step %d: %s' % (k + 1, dd); break
            violate('trajectory_depends_on_setter_order', 'variant %s: Set* order %r vs %r (%s) give different trajectories: %s'
                    % (key, [conf[i]['what'] for i in plan['perms'][p0]['order']], [conf[i]['what'] for i in perm['order']],
                       perm['variant'], (dd or d)[:300]), variant=key, where=plan['solver'], reused=bool(plan.get('prerun')))
            return


def run_de2(plan, run, violate, stats):
    variants = [None] + list(plan['maps'])
    base = None
    for vi, mspec in enumerate(variants):
        run.fs.subdir = 'de2-%d' % vi
        h = engine.Harness(run, plan, [])
        h.build()
        for op in plan['ops']: h.do(op)
        if mspec is not None: h.do({'op': 'set', 'what': 'mapper', 'arg': mspec})
        snaps = []
        run_steps(h, plan['nsteps'], snaps, IGNORE_DE2)
        stats['variants'] += 1; stats['steps'] += len(snaps)
        if base is None: base = snaps; continue
        for k, (a, b) in enumerate(zip(base, snaps)):
            d = first_diff(a, b)
            if d:
                violate('trajectory_depends_on_map_schedule', 'DE2 under %r differs from python_map at step %d: %s'
                        % (mspec, k + 1, d[:300]), map=mspec['mode'], where='DE2')
                return
        if len(base) != len(snaps):
            violate('trajectory_depends_on_map_schedule', 'DE2 under %r ran %d steps, %d under python_map' % (mspec, len(snaps), len(base)),
                    map=mspec['mode'], where='DE2')
            return


def run_ens(plan, run, violate, stats):
    variants = [(None, m) for m in plan['modes']]
    for ms in plan['maps']:
        for m in plan['modes']:
            # a process-mode map pickles every member out and back per map call: step-wise modes (one map call per
            # ensemble step) are only run under it when the run is short
            if ms.get('mode') == 'process' and m != 'solve' and (plan.get('limits') or [99])[0] > 8: continue
            variants.append((ms, m))
    finals = {}; stepwise = {}
    if plan.get('instance_order'):
        # a configured nested-solver instance: configuring it BEFORE or AFTER it is handed to the ensemble (SetNestedSolver) is
        # the same configuration -- the order of the Set* calls made beforehand must not matter
        variants = [(None, 'solve', 'before'), (None, 'solve', 'after')] + [(a_, b_, None) for a_, b_ in variants[:2]]
    else:
        variants = [(a_, b_, None) for a_, b_ in variants]
    inst_finals = {}
    for vi, (mspec, mode, iorder) in enumerate(variants):
        _random.seed(plan['lib_seed']); numpy.random.seed(plan['lib_seed'] % (2 ** 32))
        if iorder == 'before':
            s, peers = ensembles.build_ensemble(plan, run, mspec, instance=ensembles.nested_instance(plan))
        elif iorder == 'after':
            inst_ = ensembles.nested_instance(plan, configured=False)
            s, peers = ensembles.build_ensemble(plan, run, mspec, instance=inst_)
            ensembles.configure_instance(inst_, plan)
        else:
            s, peers = ensembles.build_ensemble(plan, run, mspec)
        snaps = [] if mode == 'steps' else None
        b0 = run.ncross
        try:
            run.budget = b0 + 150000          # per variant: a variant that spins is reported, not waited for
            G = (plan.get('limits') or [None])[0]
            run.map_budget = (run.counts['map'] + G + 6) if (G is not None and mspec is not None) else None
            fin = ensembles.drive(s, peers, plan, run, mode, (G + 6) if G is not None else 400, snaps)
            run.map_budget = None
        except env.SimCrash:
            raise
        except env.SimHang as e:
            run.map_budget = None
            violate('trajectory_depends_on_map_schedule', 'ensemble under map %r in mode %s did not finish within %d seam crossings '
                    '(other variants finish in a few thousand)' % (mspec, mode, run.ncross - b0),
                    map=(mspec or {}).get('mode', 'python_map'), mode=mode)
            run.budget = run.ncross + 600000
            return
        except Exception as e:
            violate('trajectory_depends_on_map_schedule', 'ensemble under map %r in mode %s raised %s: %s'
                    % (mspec, mode, type(e).__name__, str(e)[:200]), map=(mspec or {}).get('mode', 'python_map'), mode=mode)
            continue
        stats['variants'] += 1; stats['steps'] += (len(snaps) if snaps else fin['generations'] + 1)
        if iorder is not None:
            inst_finals[iorder] = fin; run.probe('c07.instance_order_variant')
            continue
        finals[(vi, (mspec or {}).get('mode', 'python_map'), mode)] = fin
        if snaps is not None: stepwise[(vi, (mspec or {}).get('mode', 'python_map'))] = snaps
    if len(inst_finals) == 2:
        KEYS_ = ('bestEnergy', 'bestSolution', 'all_bestEnergy', 'all_bestSolution', 'total_evals', 'all_evals', 'all_iters', 'nmembers')
        d = first_diff({k: inst_finals['before'][k] for k in KEYS_}, {k: inst_finals['after'][k] for k in KEYS_})
        if d:
            violate('trajectory_depends_on_set_order', 'ensemble %s/%s with a configured nested instance: configuring the instance after '
                    'SetNestedSolver(instance) gives a different run than configuring it before: %s' % (plan['ensemble'], plan['nested'], d[:300]),
                    mode='solve', map='python_map')
            return
    # (a) same mode, different maps: identical results
    by_mode = {}
    for (vi, mname, mode), fin in finals.items():
        by_mode.setdefault(mode, []).append((mname, fin))
    for mode, lst in by_mode.items():
        m0, f0 = lst[0]
        for mname, f in lst[1:]:
            d = first_diff(f0, f)
            if d:
                violate('trajectory_depends_on_map_schedule', 'ensemble %s/%s in mode %s: result under map %s differs from %s: %s'
                        % (plan['ensemble'], plan['nested'], mode, mname, m0, d[:300]), map=mname, mode=mode)
                return
    # (b) manual Step loops under different maps: identical at every step
    sw = list(stepwise.items())
    pub = lambda d_: {k_: v_ for k_, v_ in d_.items() if not k_.startswith('_')}
    for (k1, s1) in sw[1:]:
        for i, (a, b) in enumerate(zip(sw[0][1], s1)):
            d = first_diff(pub(a), pub(b))
            if d:
                violate('trajectory_depends_on_map_schedule', 'ensemble stepped under map %s differs from %s at step %d: %s'
                        % (k1[1], sw[0][0][1], i + 1, d[:300]), map=k1[1], mode='steps')
                return
    # (c) step-wise vs run-to-completion: same result
    KEYS = ('bestEnergy', 'bestSolution', 'all_bestEnergy', 'all_bestSolution', 'total_evals', 'all_evals', 'all_iters', 'nmembers')
    ref = None
    for (vi, mname, mode), fin in sorted(finals.items()):
        f = {k: fin[k] for k in KEYS}
        if ref is None: ref = (mname, mode, f); continue
        d = first_diff(ref[2], f)
        if d:
            violate('step_vs_solve_differ', 'ensemble %s/%s: %s under %s vs %s under %s: %s'
                    % (plan['ensemble'], plan['nested'], mode, mname, ref[1], ref[0], d[:300]), map=mname, mode=mode)
            return


def simplify(plan):
    if plan['kind'] == 'perm':
        if len(plan['perms']) > 2:
            for i in range(1, len(plan['perms'])):
                p = dict(plan); p['perms'] = [plan['perms'][0], plan['perms'][i]]
                yield p
    if plan['kind'] in ('de2', 'ensemble') and len(plan['maps']) > 1:
        for m in plan['maps']:
            p = dict(plan); p['maps'] = [m]
            yield p
    if plan['kind'] == 'ensemble' and len(plan['modes']) > 2:
        for i in range(len(plan['modes'])):
            p = dict(plan); p['modes'] = plan['modes'][:i] + plan['modes'][i + 1:]
            yield p
    if plan.get('nsteps', 0) > 2:
        p = dict(plan); p['nsteps'] = plan['nsteps'] - 1
        yield p
    for key in ('constraint', 'penalty', 'termination'):
        if plan['kind'] == 'ensemble' and plan.get(key):
            p = dict(plan); p[key] = None
            yield p
