"""Run context and the scripted environment (cost / constraint / penalty / callback peers,
simulated clock, simulated SIGINT + tty).

Peers are instances of classes in this importable module that carry only their spec; all logs
live in the run context `CUR` (module global), so a peer that travels through dill / deepcopy
(checkpoints, process-mode maps, ensemble member copies) still reports to the same run.
All cost / constraint / penalty arithmetic is done in pure Python floats on
tuple(float(v) for v in x), so that a harness re-evaluation is bit-identical whatever
container mystic passes.
"""
import math, random, hashlib, collections

inf = float('inf')
nan = float('nan')

import sys as _sys
CUR = None          # the active Run (one per process at a time)


class SimHang(BaseException):
    """deterministic budget (seam crossings) exceeded"""

class SimCrash(BaseException):
    """simulated process death"""

class HarnessError(Exception):
    """the harness itself is wrong (never a violation, never a pass)"""

class SimFault(OSError):
    """an injected, loud environment failure (ENOSPC, EIO, lost worker, ...)"""


def sub_rng(seed, stream):
    """independent, named PRNG sub-stream of a run seed"""
    h = hashlib.sha256(("%s/%s" % (seed, stream)).encode()).digest()
    return random.Random(int.from_bytes(h[:8], 'big'))


# ------------------------------------------------------------------------- clock

class SimClock(object):
    """three readers over one discrete simulated time line"""
    def __init__(self, start=1.7e9):
        self.wall = start       # time.time
        self.mono = 1000.0      # time.perf_counter
        self.cpu = 10.0         # time.process_time
        self.t0 = start
        self.reads = 0
        self.covered = 0.0
    def advance(self, dt, cpu=True):
        self.wall += dt; self.mono += dt; self.covered += dt
        if cpu: self.cpu += dt
    def jump(self, dt):         # NTP-like step of the wall clock only
        self.wall += dt

def _read(i):
    run = CUR
    c = run.clock
    if not run.observing:
        c.reads += 1
        run.seam('clock')
    return (c.wall, c.mono, c.cpu)[i]
def sim_time(): return _read(0)
def sim_perf_counter(): return _read(1)
def sim_process_time(): return _read(2)


# ------------------------------------------------------------------------- run context

EvalRec = collections.namedtuple('EvalRec', 'n task owner x y')

class Run(object):
    def __init__(self, seed, budget=200000):
        self.seed = seed
        self.evals = []          # EvalRec per real call of a SimCost
        self.pen_calls = []      # (n, x, p)
        self.con_calls = 0
        self.callbacks = []      # (n_evals_at_call, x tuple, extra)
        self.counts = collections.Counter()   # seam crossings per kind
        self.ncross = 0
        self.budget = budget
        self.faults = {}         # (seam, n) -> fault dict
        self.fired = collections.Counter()
        self.probes = collections.Counter()
        self.trace = []          # canonical event log (digest input)
        self.clock = SimClock()
        self.owner = None        # which solver identity the harness is driving
        self.task = 0            # current simulated task id
        self.sched = None        # baton scheduler for multi-task runs
        self.signal = SimSignal(self)
        self.on_callback = None  # harness hook: called from SimCallback with (x)
        self.fs = None
        self.cost_dt = None      # callable n -> simulated seconds per cost call
        self.notes = []
        self.dead = False
        self.observing = False   # harness is looking: clock reads are not seam crossings
        self.sched_sigs = []     # recorded schedules of threaded maps
        self.stats_switches = 0
        self.stats_lines = 0
        self.pre_step = None     # harness hook: called by the _Step wrapper before each _Step
        self.map_budget = None   # liveness bound counted in map calls (ensemble steps); None = unbounded
        self.raised = set()      # EvalRec.n of cost calls that ended in an injected exception

    def __reduce__(self):
        # the simulator is not part of the system: a pickle only ever refers to "the current run"
        return (current, ())

    # every interaction of the system with its environment passes here
    def seam(self, kind):
        self.counts[kind] += 1
        self.ncross += 1
        if self.ncross > self.budget:
            raise SimHang("budget of %d seam crossings exceeded at %s#%d"
                          % (self.budget, kind, self.counts[kind]))
        if self.sched is not None:
            self.sched.yield_point(kind)
        f = self.faults.get((kind, self.counts[kind]))
        if f is not None:
            return self.fire(f, kind)      # faults local to the seam are returned to it
        return None

    def fire(self, f, kind):
        k = f['kind']
        self.fired[k] += 1
        self.trace.append(('fault', k, kind, self.counts[kind]))
        if k == 'interrupt':
            self.signal.deliver(f.get('tty', ['exit']))
        elif k == 'crash':
            self.dead = True
            if self.fs is not None: self.fs.freeze(f)
            raise SimCrash("%s#%d" % (kind, self.counts[kind]))
        elif k == 'jump':
            self.clock.advance(float(f['dt']))
        elif k == 'back':
            self.clock.jump(-abs(float(f['dt'])))
        elif k == 'stall':
            self.clock.advance(float(f['dt']), cpu=False)
        elif k == 'raise':
            if kind == 'cost': self.raised.add(len(self.evals))      # (the call that is failing was logged as begun)
            raise SimFault(f.get('msg', 'injected failure'))
        else:
            return f
        return None

    def probe(self, name, n=1):
        self.probes[name] += n


def current():
    return CUR

def _current_signal():
    return CUR.signal if CUR is not None else None

def _current_fs():
    return CUR.fs if CUR is not None else None

def begin(run):
    global CUR
    CUR = run
    return run

def end():
    global CUR
    CUR = None


# ------------------------------------------------------------------------- cost models

def _quad(p, x):
    s = 0.0
    for a, c, v in zip(p['a'], p['c'], x):
        d = v - c
        s += a * d * d
    return s + p.get('f0', 0.0)

def _rosen(p, x):
    if len(x) == 1:
        d = x[0] - 1.0
        return d * d
    s = 0.0
    for i in range(len(x) - 1):
        a = x[i + 1] - x[i] * x[i]
        b = 1.0 - x[i]
        s += p.get('k', 100.0) * a * a + b * b
    return s

def _abs(p, x):
    s = 0.0
    for a, c, v in zip(p['a'], p['c'], x):
        s += a * abs(v - c)
    return s + p.get('f0', 0.0)

def _quant(p, x):
    q = p['q']
    v = _quad(p, x)
    if v != v or v in (inf, -inf): return v
    return math.floor(v / q) * q

def _infband(p, x):
    lo, hi = p['band']
    if lo < x[p.get('i', 0)] < hi: return inf
    return _quad(p, x)

def _flat(p, x):
    # quadratic that ignores the dimensions listed in p['flat'] (collapse workloads)
    s = 0.0
    fl = p['flat']
    for i, (a, c, v) in enumerate(zip(p['a'], p['c'], x)):
        if i in fl: continue
        d = v - c
        s += a * d * d
    return s

def _tied(p, x):
    # quadratic + stiff coupling of pairs: minimiser has x[i] == x[j] (+off)
    s = _quad(p, x)
    for (i, j, off, k) in p['pairs']:
        d = x[i] - x[j] - off
        s += k * d * d
    return s

def _maxabs(p, x):
    m = 0.0
    for a, c, v in zip(p['a'], p['c'], x):
        t = a * abs(v - c)
        if t > m: m = t
    return m

def _vector(p, x):
    return [_quad(q, x) for q in p['parts']]

def _nanhole(p, x):
    # nan inside a small ball: an unusual but legal cost value
    d = 0.0
    for c, v in zip(p['hole'], x):
        d += (v - c) * (v - c)
    if d < p['r2']: return nan
    return _quad(p, x)

def _slab(p, x):
    # quadratic + a high-cost slab lo < x[i] < hi (CollapseCost workloads)
    v = _quad(p, x)
    lo, hi = p['slab']
    if lo < x[p.get('i', 0)] < hi: v += p.get('H', 100.0)
    return v

MODELS = {'slab': _slab, 'quad': _quad, 'rosen': _rosen, 'abs': _abs, 'quant': _quant, 'infband': _infband,
          'flat': _flat, 'tied': _tied, 'maxabs': _maxabs, 'vector': _vector, 'nanhole': _nanhole}

def eval_model(spec, xt):
    return MODELS[spec['model']](spec['params'], xt)


class SimCost(object):
    """the user's cost function, played by the simulator"""
    def __init__(self, spec):
        self.spec = spec
        self.ncalls = 0           # counted calls of THIS object (copies made by dill/deepcopy count for themselves)
    def __call__(self, x, *args):
        run = CUR
        xt = tuple(float(v) for v in x)
        y = eval_model(self.spec, xt)
        if run is None or run.observing or _sys._getframe(1).f_code.co_name == 'approx_fprime':
            # the harness is looking (an oracle asked mystic to evaluate a condition that calls the raw cost, e.g.
            # GradientNormTolerance): answer purely -- no log entry, no simulated time, no fault.
            # Likewise when an installed GradientNormTolerance differentiates the raw cost from inside the solver's termination
            # test: those calls are not evaluations of the optimisation (mystic does not count them, nor does the model)
            if isinstance(y, list):
                import numpy
                return numpy.array(y)
            return y
        n = len(run.evals) + 1
        self.ncalls = getattr(self, 'ncalls', 0) + 1
        run.evals.append(EvalRec(n, run.task, run.owner, xt, y))   # the call has begun: it counts
        if run.cost_dt is not None:
            run.clock.advance(run.cost_dt(n))
        run.seam('cost')          # yield / fault point inside the call (interrupt, crash, clock jump)
        if isinstance(y, list):
            import numpy
            return numpy.array(y)
        return y
    def pure(self, xt):
        return eval_model(self.spec, tuple(xt))


# ------------------------------------------------------------------------- constraints

def con_apply(spec, x):
    """pure-python application of a constraint spec to a list of floats -> new list"""
    x = list(x)
    fam = spec['family']
    p = spec['params']
    if fam == 'pin':
        for i, v in p['at']:
            x[i] = v
    elif fam == 'clamp':
        for i, (lo, hi) in enumerate(zip(p['lo'], p['hi'])):
            if x[i] < lo: x[i] = lo
            elif x[i] > hi: x[i] = hi
    elif fam == 'round':
        step = p.get('step', 1.0)
        for i in p['idx']:
            v = x[i]
            if v == v and v not in (inf, -inf):
                x[i] = math.floor(v / step + 0.5) * step
    elif fam == 'tie':
        for (i, j, a, b) in p['ties']:
            x[j] = a * x[i] + b
    elif fam == 'sort':
        x = sorted(x)
    elif fam == 'push_out':      # hostile: pushes a coordinate beyond the box (C02 only)
        i = p['i']
        x[i] = x[i] + p['by']
    elif fam == 'push_if':       # hostile but idempotent: beyond a threshold, jump outside the box
        i = p['i']
        if x[i] > p['t']: x[i] = p['to']
    elif fam == 'chain':
        for s in p['of']:
            x = con_apply(s, x)
    elif fam == 'identity':
        pass
    elif fam == 'zdiv':
        # leaves every vector as it is, but cannot be evaluated on the plane x[i] == 0 (raises ZeroDivisionError there):
        # the combinators tolerate that error and try elsewhere
        if x[p['i']] == 0.0:
            raise ZeroDivisionError('float division by zero')
    elif fam == 'relax':
        # a contraction (NOT idempotent): halves the distance of x[i] to t; its only fixed point is x[i] == t,
        # reached exactly after ~55 applications (used with or_, which re-applies a member to its own result)
        t = p['t']
        for i in p['idx']:
            x[i] = t + (x[i] - t) * 0.5
    elif fam == 'measure_norm':
        # flattened product measure: per measure the weights are made non-negative and sum to one
        o = 0
        for n in p['npts']:
            w = [v if (v == v and v > 0.0) else 0.0 for v in x[o:o + n]]
            t = 0.0
            for v in w: t += v
            if t > 0.0 and t < inf: w = [v / t for v in w]
            # (no positive weight left: leave the zeros; a user constraint must not undo a zeroed weight)
            x[o:o + n] = w
            o += 2 * n
    else:
        raise HarnessError("unknown constraint family %r" % fam)
    return x


class SimConstraint(object):
    """user constraints function x' = c(x); deterministic, idempotent; three calling forms"""
    def __init__(self, spec):
        self.spec = spec
    def __call__(self, x):
        run = CUR
        if run is not None:
            run.con_calls += 1
            run.seam('constraint')
        xl = [float(v) for v in x]
        new = con_apply(self.spec, xl)
        form = self.spec.get('form', 'pure')
        if form == 'pure':
            return self._like(x, new)
        if form == 'inplace':
            for i, v in enumerate(new): x[i] = v
            return x
        if form == 'alias':
            # corrupts its argument in place AND hands back a separate object
            for i, v in enumerate(new): x[i] = v
            return self._like(x, new)
        raise HarnessError("unknown constraint form %r" % form)
    @staticmethod
    def _like(x, new):
        import numpy
        if isinstance(x, numpy.ndarray):
            return numpy.array(new, dtype='float64')
        return list(new)
    def pure(self, xt):
        return tuple(con_apply(self.spec, list(xt)))


# ------------------------------------------------------------------------- penalty

def pen_apply(spec, xt):
    k = spec['params'].get('k', 1.0)
    kind = spec['kind']
    p = spec['params']
    if kind == 'lin_ineq':       # k * max(0, w.x - b)^2
        g = -p['b']
        for w, v in zip(p['w'], xt): g += w * v
        return k * g * g if g > 0.0 else 0.0
    if kind == 'ball':           # k * max(0, |x-c|^2 - r2)
        d = -p['r2']
        for c, v in zip(p['c'], xt): d += (v - c) * (v - c)
        return k * d if d > 0.0 else 0.0
    if kind == 'const':
        return k
    if kind == 'zero':
        return 0.0
    raise HarnessError("unknown penalty kind %r" % kind)


class SimPenalty(object):
    def __init__(self, spec):
        self.spec = spec
    def __call__(self, x):
        run = CUR
        xt = tuple(float(v) for v in x)
        p = pen_apply(self.spec, xt)
        if run is not None:
            run.seam('penalty')
            run.pen_calls.append((len(run.pen_calls) + 1, xt, p))
        return p
    def pure(self, xt):
        return pen_apply(self.spec, tuple(xt))


# ------------------------------------------------------------------------- callback

class SimCallback(object):
    """user callback(xk): logs, lets the harness snapshot the live solver"""
    def __init__(self, tag='cb'):
        self.tag = tag
    def __call__(self, x):
        run = CUR
        run.seam('callback')
        xt = tuple(float(v) for v in x)
        run.callbacks.append((len(run.evals), xt, self.tag))
        if run.on_callback is not None:
            run.on_callback(xt)


# ------------------------------------------------------------------------- SIGINT + tty

class SimSignal(object):
    """stands in for signal.signal: records what Solve installs; delivery is a simulator fault"""
    def __init__(self, run):
        self.run = run
        self.handler = None
        self.installs = []       # ('handler'|'default'|other)
        self.tty = []            # pending scripted answers for input()
        self.asked = 0
        self.delivered = 0
        self.answers = []        # what was actually consumed
    def __reduce__(self):
        return (_current_signal, ())
    def signal(self, signum, handler):
        import mystic._signal as ms
        if handler is ms.default_int_handler:
            self.installs.append('default'); self.handler = None
        else:
            self.installs.append('handler'); self.handler = handler
        return None
    def input(self, prompt=''):
        self.asked += 1
        if not self.tty:
            # a tty that closes: input() raises EOFError
            raise EOFError("simulated tty exhausted")
        a = self.tty.pop(0)
        self.answers.append(a)
        return a
    def deliver(self, tty):
        import sys
        self.delivered += 1
        if self.handler is None:
            self.run.trace.append(('sigint', 'KeyboardInterrupt'))
            raise KeyboardInterrupt()
        self.tty = list(tty)
        self.run.trace.append(('sigint', tuple(tty)))
        self.handler(2, sys._getframe(1))
