"""The one-liner interfaces (fmin, fmin_powell, diffev, diffev2, lattice, buckshot) as simulated workloads.

One plan = one wrapper call with scripted cost / constraint / penalty peers, optional box, limits,
itermon/evalmon, a callback, and (C05) an interrupt delivered from inside a cost call with handler=True.
The recorded call log is then judged for the properties that name the wrappers:
  C01  the returned x is a point the cost was called at and fval is cost(+penalty) there; retall lists bests
  C02  with bounds= no cost call outside the box; the returned x inside it
  C04  funcalls == number of real cost calls; the evaluation monitor == the call log (default map)
  C05  warnflag names a condition that is true (1: funcalls >= maxfun, 2: iterations >= maxiter, 0: neither),
       iterations <= maxiter, an answered exit ends the run
"""
import hashlib, random as _random
import numpy
from . import env, engine, observe, gen, fs as simfs
from .env import sub_rng, SimCost, SimConstraint, SimPenalty, SimCallback
from .observe import canon, feq
from .oracles import reduce_energy, finite, in_box

inf = float('inf')
NAMES = ['fmin', 'fmin', 'fmin_powell', 'fmin_powell', 'diffev', 'diffev2', 'lattice', 'buckshot']


def gen_wrapper_plan(seed, tier, prop, interrupts=False):
    rng = sub_rng(seed, 'plan.wrapper')
    name = rng.choice(NAMES)
    dim = rng.randint(1, 4)
    plan = {'property': prop, 'seed': seed, 'tier': tier, 'kind': 'wrapper', 'name': name, 'dim': dim,
            'solver': name, 'lib_seed': rng.randrange(1 << 30),
            'cost': gen.gen_cost(rng, dim, ['quad', 'quad', 'rosen', 'abs', 'quant', 'maxabs', 'infband'])}
    box = None
    if rng.random() < 0.5 or name in ('lattice', 'buckshot'):
        lo, hi = gen.gen_box(rng, dim, exotic=(name not in ('lattice', 'buckshot')) and rng.random() < 0.3)
        box = (lo, hi)
        plan['bounds'] = {'lo': lo, 'hi': hi}
        t, c = rng.choice([(None, None), (None, None), (True, None), (None, True)])
        if t is not None: plan['bounds']['tight'] = t
        if c is not None: plan['bounds']['clip'] = c
    if rng.random() < 0.25:
        if box and rng.random() < 0.5:
            from .solverplan import int_box
            plan['bounds'] = int_box(plan['bounds']); box = (plan['bounds']['lo'], plan['bounds']['hi'])
        con = gen.gen_constraint(rng, dim, box)
        if gen.compatible(con, box): plan['constraint'] = con
    if rng.random() < 0.3: plan['penalty'] = gen.gen_penalty(rng, dim)
    if name in ('diffev', 'diffev2'):
        plan['npop'] = rng.choice([5, 6, 8])
        if box and all(abs(v) != inf for v in box[0] + box[1]) and rng.random() < 0.6:
            plan['x0'] = {'box': [list(box[0]), list(box[1])]}
        elif rng.random() < 0.5:
            lo, hi = gen.gen_box(rng, dim, exotic=False)
            plan['x0'] = {'box': [lo, hi]}
        else:
            plan['x0'] = {'x': gen.inside(rng, box[0], box[1]) if box else gen.gen_x0(rng, dim)}
        plan['de'] = {'strategy': rng.choice(['Best1Bin', 'Best1Exp', 'Rand1Bin', 'Rand1Exp', 'RandToBest1Bin']),
                      'cross': rng.choice([0.5, 0.9, 1.0]), 'scale': rng.choice([0.5, 0.8])}
        plan['tol'] = {'ftol': rng.choice([5e-3, 1e-6, 1.0]), 'gtol': rng.choice([None, 3, 10])}
    elif name in ('lattice', 'buckshot'):
        if name == 'lattice':
            plan['nbins'] = rng.choice([2, 3, 4, 5, 6]) if rng.random() < 0.5 else [rng.choice([1, 2, 2, 3]) for _ in range(dim)]
            if isinstance(plan['nbins'], list):
                while numpy.prod(plan['nbins']) > 9: plan['nbins'][rng.randrange(dim)] = 1
        else:
            plan['npts'] = rng.choice([1, 2, 3, 5, 8])
        plan['nested'] = rng.choice(['NM', 'NM', 'Powell'])
        plan['tol'] = {'ftol': rng.choice([1e-4, 1e-2]), 'gtol': rng.choice([None, 3])}
    else:
        plan['x0'] = {'x': gen.inside(rng, box[0], box[1]) if (box and rng.random() < 0.7) else gen.gen_x0(rng, dim)}
        plan['tol'] = {'xtol': rng.choice([1e-4, 1e-2, 0.3, None] if name == 'fmin' else [1e-4, 1e-2, 0.3]),
                       'ftol': rng.choice([1e-4, 1e-2, 0.3])}
    plan['maxiter'] = rng.choice([None, None, 0, 1, 3, 8, 20, 60])
    plan['maxfun'] = rng.choice([None, None, 1, 5, 20, 100, 400])
    if name in ('lattice', 'buckshot') or plan['maxiter'] is None and plan['maxfun'] is None:
        # keep run-to-default-limits out: a bounded budget always
        if plan['maxiter'] is None: plan['maxiter'] = rng.choice([5, 15, 40])
    plan['retall'] = rng.random() < 0.4
    plan['monitors'] = rng.random() < 0.5
    plan['callback'] = rng.random() < 0.5
    plan['faults'] = []
    if interrupts and name not in ('lattice', 'buckshot') and rng.random() < 0.6:
        plan['handler'] = True
        plan['faults'] = [{'at': 'cost#%d' % rng.randint(1, 40), 'kind': 'interrupt',
                           'tty': rng.choice([['exit'], ['exit'], ['cont'], ['sol', 'exit'], ['call', 'cont'], ['EXIT'], ['bogus', 'exit']])}]
    return plan


def run_wrapper_plan(plan, props=('C01',)):
    import mystic.solvers as ms
    import mystic.ensemble as me
    import mystic.monitors as mm
    import mystic.strategy as st
    from .solverplan import install_faults
    run = env.Run(plan['seed'], budget=600000)
    env.begin(run)
    install_faults(run, plan)
    run.fs = simfs.SimFS(run); run.fs.plant()
    V = []
    name = plan['name']; dim = plan['dim']
    b = plan.get('bounds'); box = (tuple(b['lo']), tuple(b['hi'])) if b else None
    con = plan.get('constraint'); pen = plan.get('penalty')
    tags = {'wrapper': name, 'bounds': bool(b), 'constraint': (con or {}).get('family'), 'penalty': bool(pen),
            'tight': (b or {}).get('tight'), 'clip': (b or {}).get('clip')}
    def violate(prop, kind, detail, **t):
        if prop in props:
            tt = dict(tags); tt.update(t)
            V.append(engine.Violation(prop, kind, name, tt, detail))
    out = None; exc = None
    try:
        with engine.patched_world(run):
            _random.seed(plan['lib_seed']); numpy.random.seed(plan['lib_seed'] % (2 ** 32))
            cost = SimCost(plan['cost'])
            kw = dict(full_output=1, disp=0, retall=int(bool(plan.get('retall'))))
            if plan.get('maxiter') is not None: kw['maxiter'] = plan['maxiter']
            if plan.get('maxfun') is not None: kw['maxfun'] = plan['maxfun']
            if b:
                kw['bounds'] = list(zip(b['lo'], b['hi']))
                if 'tight' in b: kw['tightrange'] = b['tight']
                if 'clip' in b: kw['cliprange'] = b['clip']
            if con: kw['constraints'] = SimConstraint(con)
            if pen: kw['penalty'] = SimPenalty(pen)
            itermon = evalmon = None
            if plan.get('monitors'):
                itermon = mm.Monitor(); evalmon = mm.Monitor()
                kw['itermon'] = itermon; kw['evalmon'] = evalmon
            if plan.get('callback'): kw['callback'] = SimCallback('wrapper')
            if plan.get('handler'): kw['handler'] = True
            kw.update({k_: v for k_, v in (plan.get('tol') or {}).items() if not (k_ == 'gtol' and v is None and name in ('lattice', 'buckshot'))})
            try:
                if name == 'fmin': out = ms.fmin(cost, list(plan['x0']['x']), **kw)
                elif name == 'fmin_powell': out = ms.fmin_powell(cost, list(plan['x0']['x']), **kw)
                elif name in ('diffev', 'diffev2'):
                    x0 = plan['x0']
                    arg = list(zip(*x0['box'])) if 'box' in x0 else list(x0['x'])
                    d = plan['de']
                    kw.update(npop=plan['npop'], strategy=getattr(st, d['strategy']), cross=d['cross'], scale=d['scale'])
                    out = getattr(ms, name)(cost, arg, **kw)
                elif name == 'lattice':
                    kw['solver'] = getattr(ms, {'NM': 'NelderMeadSimplexSolver', 'Powell': 'PowellDirectionalSolver'}[plan['nested']])
                    nb = plan['nbins'] if not isinstance(plan['nbins'], list) else tuple(plan['nbins'])
                    for k_ in ('callback', 'handler', 'tightrange', 'cliprange'): kw.pop(k_, None)
                    out = me.lattice(cost, dim, nbins=nb, **kw)
                else:
                    kw['solver'] = getattr(ms, {'NM': 'NelderMeadSimplexSolver', 'Powell': 'PowellDirectionalSolver'}[plan['nested']])
                    for k_ in ('callback', 'handler', 'tightrange', 'cliprange'): kw.pop(k_, None)
                    out = me.buckshot(cost, dim, npts=plan['npts'], **kw)
            except env.SimHang as e:
                violate('C05', 'solve_did_not_return', 'wrapper %s: %s' % (name, e))
            except KeyboardInterrupt:
                exc = 'KeyboardInterrupt'
            except (env.SimCrash,):
                raise
            except Exception as e:
                exc = type(e).__name__
                run.probe('wrapper.raised.%s.%s' % (name, exc))
                # every argument generated here is legal: the one-liner has to return
                violate('C05', 'wrapper_raised', '%s(maxiter=%r, maxfun=%r, ...) raised %s: %s' % (name, plan.get('maxiter'), plan.get('maxfun'),
                        exc, str(e)[:160]), exc=exc)
                violate('C09', 'ensemble_raised', '%s(maxiter=%r, maxfun=%r, ...) raised %s: %s' % (name, plan.get('maxiter'), plan.get('maxfun'),
                        exc, str(e)[:160]), exc=exc)
            if out is not None:
                judge(plan, run, out, itermon, evalmon, violate, box, con, pen)
    finally:
        run.fs.cleanup()
        env.end()
    tr = repr(canon(run.trace)) + repr(len(run.evals)) + repr(canon(out[:5]) if out is not None else exc)
    return {'violations': V, 'digest': hashlib.sha1(tr.encode()).hexdigest(), 'probes': run.probes, 'fired': run.fired, 'sim_s': 0.0,
            'nontrivial': len(run.evals) > 1, 'stats': {'cost_calls': len(run.evals), 'steps': 0, 'ops': 1, 'seam_crossings': run.ncross}}


def judge(plan, run, out, itermon, evalmon, violate, box, con, pen):
    name = plan['name']
    x, fval, iters, fcalls, warnflag = out[:5]
    run.probe('wrapper.returned.%s' % name)
    evs = run.evals
    bx = canon(x); be = canon(fval)
    if isinstance(bx, float): bx = (bx,)
    # ---- C01
    if isinstance(be, float) and finite(be):
        run.probe('c01.best_checked'); run.probe('c01.wrapper_result_checked')
        hits = [e for e in evs if feq(tuple(e.x), tuple(bx))]
        if not hits:
            violate('C01', 'wrapper_result_mismatch', '%s returned x=%r (fval %r): the cost was never called there' % (name, bx, be))
        else:
            want = [canon(reduce_energy(e.y, env.pen_apply(pen, e.x) if pen else 0.0, None)) for e in hits]
            if not any(feq(w, be) for w in want):
                violate('C01', 'wrapper_result_mismatch', '%s returned fval=%r at x=%r; cost+penalty there is %r' % (name, be, bx, want[:3]))
    # ---- C02
    if box is not None:
        run.probe('c02.evals_checked_against_box', len(evs))
        for e in evs:
            if not in_box(e.x, box):
                violate('C02', 'cost_called_outside_box', '%s(bounds=%r): cost call #%d at %r is outside the box' % (name, box, e.n, e.x)); break
        if isinstance(be, float) and finite(be) and not in_box(bx, box):
            violate('C02', 'best_outside_box', '%s(bounds=%r) returned x=%r with fval=%r' % (name, box, bx, be))
    # ---- C03 (wrappers install the constraint before the first step)
    if con is not None:
        run.probe('c03.evals_checked_against_constraint', len(evs))
        for e in evs:
            if tuple(env.con_apply(con, list(e.x))) != tuple(e.x) and not any(v != v for v in e.x):
                violate('C03', 'cost_called_at_unconstrained_point', '%s: cost call #%d at %r does not satisfy the constraint %s'
                        % (name, e.n, e.x, con['family'])); break
        if isinstance(be, float) and finite(be) and tuple(env.con_apply(con, list(bx))) != tuple(bx):
            violate('C03', 'best_not_fixed_point', '%s returned x=%r which the constraint %s maps to %r'
                    % (name, bx, con['family'], tuple(env.con_apply(con, list(bx)))))
    # ---- C04: accounting
    total = out[5] if name in ('lattice', 'buckshot') else fcalls
    if name in ('lattice', 'buckshot'):
        if total != len(evs):
            violate('C04', 'evaluations_ne_calls', '%s reports all_fcalls=%r, %d real cost calls' % (name, total, len(evs)))
    else:
        if fcalls != len(evs):
            violate('C04', 'evaluations_ne_calls', '%s reports funcalls=%r, %d real cost calls' % (name, fcalls, len(evs)))
        if evalmon is not None:
            ex = canon(evalmon._x); ey = canon(evalmon._y)
            wx = tuple(e.x for e in evs); wy = tuple(canon(e.y) for e in evs)
            if not (feq(ex, wx) and feq(ey, wy)):
                violate('C04', 'evalmon_ne_calls', '%s: evalmon holds %d records, the call log %d; first difference %s'
                        % (name, len(ey), len(wy), observe.first_diff({'x': ex, 'y': ey}, {'x': wx, 'y': wy})))
        if itermon is not None and len(itermon._y):
            if not (feq(canon(itermon._y[-1]), be) and feq(canon(itermon._x[-1]), bx)) and name != 'fmin_powell':
                violate('C04', 'stepmon_ne_generations', '%s: last itermon record %r/%r is not the returned result %r/%r'
                        % (name, canon(itermon._x[-1]), canon(itermon._y[-1]), bx, be))
            ys = [canon(v) for v in itermon._y]
            for a, c in zip(ys, ys[1:]):
                if isinstance(a, float) and isinstance(c, float) and c > a:
                    violate('C04', 'best_history_increased', '%s: itermon energies increase %r -> %r' % (name, a, c)); break
    # ---- C05: the warning flag names a condition that is true
    if name not in ('lattice', 'buckshot'):
        mi = plan.get('maxiter'); mf = plan.get('maxfun')
        exit_answered = any(a.lower() == 'exit' for a in run.signal.answers)
        if warnflag == 1 and mf is not None and not (fcalls >= mf):
            violate('C05', 'warnflag_untrue', '%s: warnflag=1 (evaluation limit) but funcalls=%r < maxfun=%r' % (name, fcalls, mf))
        if warnflag == 2 and mi is not None and not (iters >= mi):
            violate('C05', 'warnflag_untrue', '%s: warnflag=2 (iteration limit) but iterations=%r < maxiter=%r' % (name, iters, mi))
        if warnflag == 0 and not exit_answered:
            if mf is not None and fcalls >= mf and not (mi is not None and iters >= mi and False):
                violate('C05', 'warnflag_untrue', '%s: warnflag=0 although funcalls=%r >= maxfun=%r' % (name, fcalls, mf))
            elif mi is not None and iters >= mi:
                violate('C05', 'warnflag_untrue', '%s: warnflag=0 although iterations=%r >= maxiter=%r' % (name, iters, mi))
        if mi is not None and name != 'fmin_powell' and iters > max(mi, 0):
            violate('C05', 'generations_exceed_limit', '%s: %r iterations, maxiter=%r' % (name, iters, mi))
        if exit_answered:
            # the run must have ended at the end of the iteration in which the exit was answered
            k = next((int(f['at'].split('#')[1]) for f in plan.get('faults', []) if f['kind'] == 'interrupt'), None)
            per_iter = {'fmin': plan['dim'] + 2, 'fmin_powell': 400, 'diffev': plan.get('npop', 4), 'diffev2': plan.get('npop', 4)}[name]
            if k is not None and len(evs) > k + 2 * per_iter + 2 and name != 'fmin_powell':
                violate('C05', 'step_begun_after_stop_condition', '%s(handler=True): exit answered inside cost call #%d, but %d calls were made'
                        % (name, k, len(evs)))


def simplify_wrapper_plan(plan):
    for key in ('constraint', 'penalty', 'bounds', 'monitors', 'callback', 'retall'):
        if plan.get(key):
            if key == 'bounds' and plan['name'] in ('lattice', 'buckshot'): continue
            p = dict(plan); p[key] = None
            if key == 'bounds' and plan.get('constraint'): p['constraint'] = None
            yield p
    for key in ('maxiter', 'maxfun'):
        v = plan.get(key)
        if isinstance(v, int) and v > 3:
            p = dict(plan); p[key] = v // 2
            yield p
