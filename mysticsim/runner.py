"""Batch runner: seeded search over plans on all cores, minimisation, replay files,
known-findings matching, evidence.  Exit codes: 0 held / 1 VIOLATION / 2 harness error."""
import os, sys, json, time, hashlib, signal, traceback, collections, importlib, faulthandler
import concurrent.futures as cf
import concurrent.futures.process
import multiprocessing as mp

from . import VERIF, REPO

DEFAULT_SEED = 20260928
REAL_TIME = time.time            # captured before any run patches the clocks
REAL_MONO = time.monotonic

class RunTimeout(BaseException):
    pass

def _alarm(signum, frame):
    raise RunTimeout("run guard fired (%s)" % ('cpu seconds' if signum == signal.SIGVTALRM else 'wall clock'))

def run_seed(batch_seed, i):
    h = hashlib.sha256(("%d/%d" % (batch_seed, i)).encode()).digest()
    return int.from_bytes(h[:4], 'big') & 0x7fffffff

def load_prop(pid):
    return importlib.import_module('mysticsim.props.%s' % pid.lower())

# ------------------------------------------------------------------ one run, guarded

def guarded_run(mod, plan, wall=60):
    """run a plan; returns summary dict (never raises)"""
    # two guards: CPU seconds of this process (robust when the machine is loaded) and, four times as generous, wall-clock
    # (for a run that blocks without burning CPU)
    old = signal.signal(signal.SIGALRM, _alarm)
    oldv = signal.signal(signal.SIGVTALRM, _alarm)
    signal.alarm(int(wall * 4))
    signal.setitimer(signal.ITIMER_VIRTUAL, float(wall))
    t0 = REAL_MONO()
    try:
        res = mod.run_plan(plan)
        out = {'ok': True, 'violations': [v.as_dict() for v in res['violations']],
               'digest': res['digest'], 'probes': dict(res.get('probes', {})),
               'fired': dict(res.get('fired', {})), 'sim_s': res.get('sim_s', 0.0),
               'nontrivial': bool(res.get('nontrivial', True)),
               'sched_sig': res.get('sched_sig'), 'stats': res.get('stats', {})}
    except RunTimeout as e:
        out = {'ok': False, 'error': 'timeout: %s' % e, 'violations': []}
    except BaseException as e:
        out = {'ok': False, 'error': ''.join(traceback.format_exception(type(e), e, e.__traceback__))[-3000:],
               'violations': []}
    finally:
        signal.alarm(0)
        signal.setitimer(signal.ITIMER_VIRTUAL, 0)
        signal.signal(signal.SIGALRM, old)
        signal.signal(signal.SIGVTALRM, oldv)
        from . import env
        env.end()
    out['wall'] = REAL_MONO() - t0
    out['seed'] = plan.get('seed')
    return out

def _worker(args):
    pid, tier, batch_seed, idxs, wall = args[:5]
    isolate = len(args) > 5 and args[5]      # after a worker died: each run of the chunks that were in flight gets its own process
    deadline = args[6] if len(args) > 6 else None     # the batch's wall-clock cap (CLOCK_MONOTONIC is shared by forked workers)
    import warnings; warnings.simplefilter('ignore')
    mod = load_prop(pid)
    outs = []
    for i in idxs:
        if deadline is not None and REAL_MONO() > deadline: break      # the rest of the chunk is not run (the batch reports what ran)
        s = run_seed(batch_seed, i)
        try:
            plan = mod.gen_plan(s, tier)
        except BaseException as e:
            outs.append({'ok': False, 'seed': s, 'violations': [],
                         'error': 'gen_plan: ' + ''.join(traceback.format_exception(type(e), e, e.__traceback__))[-2000:]})
            continue
        o = isolated_run(mod, plan, wall) if isolate else guarded_run(mod, plan, wall)
        o.setdefault('seed', s)
        if o['violations'] or not o['ok']:
            o['plan'] = plan
        elif i % 97 == 0:
            o['plan'] = plan      # a few samples for the evidence file
        outs.append(o)
    return outs

# ------------------------------------------------------------------ known findings

def load_findings():
    p = os.path.join(VERIF, 'known_findings.json')
    if not os.path.exists(p): return []
    return [f for f in json.load(open(p)).get('findings', []) if f.get('status') == 'open']

def match_finding(v, findings):
    for f in findings:
        if f['property'] != v['property'] or f['kind'] != v['kind']: continue
        if f.get('where', '*') not in ('*', v['where']): continue
        tags = f.get('tags', {})
        ok = True
        for k, want in tags.items():
            have = v['tags'].get(k)
            if isinstance(want, list):
                if have not in want: ok = False; break
            elif have != want: ok = False; break
        if ok: return f
    return None

# ------------------------------------------------------------------ minimisation

def sig_of(v):
    return (v['property'], v['kind'], v['where'])

def isolated_run(mod, plan, wall=60):
    """guarded_run in a forked child that is killed if it does not answer (a candidate plan of the minimiser must never
    be able to hang the check itself)"""
    ctx = mp.get_context('fork')
    rd, wr = ctx.Pipe(duplex=False)
    def child():
        try:
            o = guarded_run(mod, plan, wall)
            o.pop('plan', None)
            wr.send(o)
        except BaseException as e:
            try: wr.send({'ok': False, 'error': 'child: %r' % (e,), 'violations': []})
            except Exception: pass
        finally:
            os._exit(0)
    p = ctx.Process(target=child)
    p.start()
    wr.close()
    out = None
    try:
        if rd.poll(wall + 45):
            out = rd.recv()
    except (EOFError, OSError):
        out = None
    finally:
        if p.is_alive():
            p.kill()
        p.join(5)
    if out is None:
        if p.exitcode is not None and p.exitcode < 0:
            out = {'ok': False, 'error': 'the process running this plan died with signal %d (interpreter crash)' % (-p.exitcode), 'violations': []}
        else:
            out = {'ok': False, 'error': 'isolated run did not answer within %ds (killed)' % (wall + 45), 'violations': []}
    out.setdefault('seed', plan.get('seed'))
    return out

def reproduces(mod, plan, sig, findings):
    o = isolated_run(mod, plan, 60)
    if not o['ok']: return None
    for v in o['violations']:
        if sig_of(v) == sig and match_finding(v, findings) is None:
            return o
    return None

def minimise(mod, plan, sig, findings, budget_s=60):
    """greedy delta-debugging over ops, then property-specific simplifications"""
    t_end = REAL_MONO() + budget_s
    best = plan
    valid = getattr(mod, 'valid', None)
    def ok(p):
        if valid is not None and not valid(p): return False
        return REAL_MONO() < t_end and reproduces(mod, p, sig, findings) is not None
    # 1. ddmin over ops
    ops_key = getattr(mod, 'OPS_KEY', 'ops')
    if ops_key in best:
        n = 2
        ops = list(best[ops_key])
        while len(ops) >= 2 and REAL_MONO() < t_end:
            chunk = max(1, len(ops) // n)
            reduced = False
            for start in range(0, len(ops), chunk):
                cand = ops[:start] + ops[start + chunk:]
                p = dict(best); p[ops_key] = cand
                if ok(p):
                    ops = cand; best = p; n = max(n - 1, 2); reduced = True
                    break
            if not reduced:
                if chunk == 1: break
                n = min(len(ops), n * 2)
    # 2. property-specific simplifications, to a fixed point
    simp = getattr(mod, 'simplify', None)
    if simp:
        changed = True
        while changed and REAL_MONO() < t_end:
            changed = False
            for cand in simp(best):
                if ok(cand):
                    best = cand; changed = True
                    break
    return best

# ------------------------------------------------------------------ main

def main(argv=None):
    import argparse
    ap = argparse.ArgumentParser()
    ap.add_argument('prop')
    ap.add_argument('--tier', default=os.environ.get('VERIF_TIER', 'quick'))
    ap.add_argument('--seed', type=int, default=None)
    ap.add_argument('--runs', type=int, default=None)
    ap.add_argument('--workers', type=int, default=int(os.environ.get('VERIF_WORKERS', '16')))
    ap.add_argument('--replay', default=None)
    ap.add_argument('--wall', type=float, default=None, help='wall-clock cap for the batch, seconds')
    ap.add_argument('--no-evidence', action='store_true')
    ap.add_argument('--dump', default=None, help='write per-run digests to this file (self-tests)')
    a = ap.parse_args(argv)

    if os.environ.get('PYTHONHASHSEED') is None:
        os.environ['PYTHONHASHSEED'] = '0'
        os.execv(sys.executable, [sys.executable, os.path.join(VERIF, 'bin', 'check')] + list(argv if argv is not None else sys.argv[1:]))

    faulthandler.enable()
    pid = a.prop.upper()
    mod = load_prop(pid)
    findings = load_findings()

    if a.replay:
        return replay(mod, pid, a.replay, findings)

    tier = a.tier
    seed = a.seed if a.seed is not None else int(os.environ.get('VERIF_SEED', DEFAULT_SEED))
    nruns = a.runs or mod.RUNS[tier]
    cap = a.wall or mod.WALL[tier]
    per_run_wall = getattr(mod, 'RUN_WALL', 60)
    t0 = REAL_MONO()
    chunk = max(1, min(50, nruns // (a.workers * 4) or 1))
    jobs = [(pid, tier, seed, list(range(s, min(s + chunk, nruns))), per_run_wall, False, t0 + cap)
            for s in range(0, nruns, chunk)]
    outs = []
    errors = []
    ctx = mp.get_context('fork')
    faulthandler.dump_traceback_later(cap + 8 * per_run_wall + 330, exit=True)
    exs = [cf.ProcessPoolExecutor(max_workers=a.workers, mp_context=ctx)]
    worker_pids = set()
    def _note_workers():
        for pid_ in list((getattr(exs[0], '_processes', None) or {}).keys()): worker_pids.add(pid_)
    def _kill_workers(*_):
        _note_workers()
        for pid_ in list(worker_pids):
            try: os.kill(pid_, signal.SIGKILL)
            except OSError: pass
    def _on_term(signum, frame):
        _kill_workers()
        os._exit(2)
    signal.signal(signal.SIGTERM, _on_term)
    signal.signal(signal.SIGINT, _on_term)
    try:
        pending = collections.deque(jobs)
        live = set()
        job_of = {}
        stop = False
        pool_breaks = 0
        def _pool_broke(lost):
            # a worker process died (interpreter crash, kill): the executor is unusable and every chunk in flight is lost.
            # Start a new pool and run those chunks again with one process per run, so that the run that kills its
            # process is identified (reported as a harness error with its seed) and the others are judged as usual.
            nonlocal live
            for f in list(live): lost.append(job_of.pop(f))
            live = set()
            try: exs[0].shutdown(wait=False, cancel_futures=True)
            except Exception: pass
            _kill_workers(); worker_pids.clear()
            exs[0] = cf.ProcessPoolExecutor(max_workers=a.workers, mp_context=ctx)
            for j in lost: pending.appendleft(tuple(j[:5]) + (True,) + tuple(j[6:7]))
        lost = []
        while pending or live:
            try:
                while pending and len(live) < a.workers * 2 and not stop:
                    j = pending.popleft()
                    try:
                        f = exs[0].submit(_worker, j)
                    except cf.process.BrokenProcessPool:
                        pending.appendleft(j); raise
                    live.add(f); job_of[f] = j
                if not live: break
                _note_workers()
                done, live = cf.wait(live, timeout=5, return_when=cf.FIRST_COMPLETED)
                lost = []
                for f in done:
                    j = job_of.pop(f)
                    try:
                        outs.extend(f.result())
                    except cf.process.BrokenProcessPool:
                        lost.append(j)
                    except BaseException as e:
                        errors.append('worker died: %r' % (e,))
                if lost: raise cf.process.BrokenProcessPool('lost')
            except cf.process.BrokenProcessPool:
                pool_breaks += 1
                if pool_breaks > 8:
                    errors.append('the worker pool broke more than 8 times'); break
                _pool_broke(lost)
                lost = []
                continue
            if REAL_MONO() - t0 > cap and not stop:
                stop = True
                pending.clear()
            if REAL_MONO() - t0 > cap + 8 * per_run_wall + 30:
                errors.append('batch exceeded its wall-clock cap by more than two run guards: workers killed')
                _kill_workers()
                break
    finally:
        # every result we are going to use has been collected: no worker may outlive the batch (an abandoned pool
        # leaves its workers asleep on the call queue for ever if this process is killed later)
        exs[0].shutdown(wait=False, cancel_futures=True)
        _kill_workers()
    faulthandler.cancel_dump_traceback_later()

    wall = REAL_MONO() - t0
    outs.sort(key=lambda o: o.get('seed') or 0)
    for o in outs:
        if not o['ok']:
            errors.append('seed %s: %s' % (o.get('seed'), o.get('error')))

    if a.dump:
        with open(a.dump, 'w') as f:
            for o in outs:
                f.write('%s %s %s\n' % (o.get('seed'), o.get('digest'),
                                        json.dumps(sorted(sig_of(v) for v in o['violations']))))

    # ---- violations: group by signature, triage against known findings
    known_hit = collections.OrderedDict()
    unknown = collections.OrderedDict()
    for o in outs:
        for v in o['violations']:
            f = match_finding(v, findings)
            if f is not None:
                known_hit.setdefault(f['id'], [f, 0, v])[1] += 1
            else:
                unknown.setdefault(sig_of(v), []).append((o, v))

    rc = 0
    for fid, (f, n, v) in known_hit.items():
        print("KNOWN-FINDING: property=%s %s [%s; matched %d times, e.g. %s]"
              % (f['property'], f['description'], fid, n, v['detail'][:160]))
    os.makedirs(os.path.join(VERIF, 'replays'), exist_ok=True)
    reported = 0
    for sig, lst in unknown.items():
        rc = 1
        if reported >= 4:
            print("VIOLATION-ALSO property=%s kind=%s where=%s (%d runs, not minimised)" % (sig + (len(lst),)))
            continue
        lst.sort(key=lambda ov: len(json.dumps(ov[0].get('plan', {}))))
        o, v = lst[0]
        plan = o['plan']
        try:
            small = minimise(mod, plan, sig, findings, budget_s=getattr(mod, 'SHRINK_S', 45))
        except BaseException as e:
            small = plan
            errors.append('minimiser: %r' % (e,))
        o2 = isolated_run(mod, small, 60)
        vv = [x for x in o2['violations'] if sig_of(x) == sig] or [v]
        path = os.path.join(VERIF, 'replays', '%s-%s-%s.json' % (pid, sig[1].replace('/', '_').replace('@', '_')[:40], plan.get('seed')))
        json.dump({'format': 1, 'property': pid, 'plan': small, 'original_seed': plan.get('seed'),
                   'tier': tier, 'expect': {'kind': sig[1], 'where': sig[2], 'tags': vv[0]['tags'],
                                            'detail': vv[0]['detail'], 'digest': o2.get('digest')},
                   'runs_with_this_signature': len(lst)}, open(path, 'w'), indent=1, default=str)
        print("VIOLATION property=%s replay=%s" % (pid, path))
        print("  kind=%s where=%s tags=%s\n  %s" % (sig[1], sig[2], vv[0]['tags'], vv[0]['detail'][:400]))
        reported += 1

    # a check whose oracle never looked at anything is not a passing check (vacuity guard)
    req = getattr(mod, 'REQUIRED_PROBES', ())
    if req and len(outs) >= 200:
        tot = collections.Counter()
        for o in outs:
            if o['ok']: tot.update(o.get('probes', {}))
        for name in req:
            if tot.get(name, 0) == 0:
                errors.append("vacuous batch: the probe %r was never hit in %d runs (the oracle did not examine anything)" % (name, len(outs)))

    if errors:
        print("HARNESS-ERROR (%d): %s" % (len(errors), errors[0][:300] + " ... " + errors[0][-1200:]), file=sys.stderr)
        if rc == 0: rc = 2

    if not a.no_evidence:
        write_evidence(mod, pid, tier, seed, outs, wall, known_hit, unknown, errors)
    n_ok = sum(1 for o in outs if o['ok'])
    print("%s tier=%s seed=%d runs=%d ok=%d wall=%.1fs violations=%d known=%d errors=%d"
          % (pid, tier, seed, len(outs), n_ok, wall, len(unknown), len(known_hit), len(errors)))
    return rc


def replay(mod, pid, path, findings):
    rep = json.load(open(path))
    plan = rep['plan']
    o = guarded_run(mod, plan, 120)
    if not o['ok']:
        print("HARNESS-ERROR replay: %s" % o.get('error'), file=sys.stderr)
        return 2
    want = (pid, rep['expect']['kind'], rep['expect']['where'])
    hit = [v for v in o['violations'] if sig_of(v) == want]
    print("replay %s: digest=%s expected_digest=%s" % (path, o['digest'], rep['expect'].get('digest')))
    for v in o['violations']:
        print("  violation kind=%s where=%s tags=%s\n    %s" % (v['kind'], v['where'], v['tags'], v['detail'][:400]))
    if hit:
        same = (o['digest'] == rep['expect'].get('digest'))
        print("VIOLATION property=%s replay=%s%s" % (pid, path, '' if same else ' (digest differs)'))
        return 1
    print("replay did not reproduce %s" % (want,))
    return 0


def write_evidence(mod, pid, tier, seed, outs, wall, known_hit, unknown, errors):
    good = [o for o in outs if o['ok']]
    probes = collections.Counter(); fired = collections.Counter()
    sim_s = 0.0
    nt = set(); scheds = set(); stats = collections.Counter()
    for o in good:
        probes.update(o.get('probes', {})); fired.update(o.get('fired', {}))
        sim_s += o.get('sim_s', 0.0)
        if o.get('nontrivial'): nt.add(o['digest'])
        if o.get('sched_sig'): scheds.add(o['sched_sig'])
        for k, v in o.get('stats', {}).items():
            if isinstance(v, (int, float)): stats[k] += v
    samples = [o['plan'] for o in outs if 'plan' in o and o['ok'] and not o['violations']][:3]
    if not samples:
        samples = [o['plan'] for o in outs if 'plan' in o][:2]
    hours = max(wall, 1e-9) / 3600.0
    ev = {
        'property_id': pid, 'tier': tier, 'seed': seed, 'level': mod.LEVEL,
        'coverage': {
            'evaluations': len(good),
            'distinct_nontrivial': len(nt),
            'rule': mod.RULE,
            'samples': samples,
            'runs_per_hour': int(len(good) / hours),
            'seeds_per_hour': int(len(good) / hours),
            'simulated_seconds_covered': sim_s,
            'faults_fired': dict(fired),
            'probes_hit': dict(probes),
            'distinct_schedule_signatures': len(scheds),
            'workload_totals': dict(stats),
            'components_real': getattr(mod, 'REAL', []),
            'components_stubbed': getattr(mod, 'STUB', []),
            'known_findings_matched': {k: v[1] for k, v in known_hit.items()},
            'harness_errors': len(errors),
        },
        'assumptions': getattr(mod, 'ASSUMPTIONS', []),
        'wall_s': round(wall, 2),
        'violations': len(unknown),
    }
    os.makedirs(os.path.join(VERIF, 'evidence'), exist_ok=True)
    with open(os.path.join(VERIF, 'evidence', '%s.json' % pid), 'w') as f:
        json.dump(ev, f, indent=1, default=str)


if __name__ == '__main__':
    sys.exit(main())
