"""Seeded generators for plan fragments (cost models, boxes, constraints, penalties,
termination trees, limits).  Every draw comes from the PRNG passed in."""
import math
inf = float('inf')

def r2(rng, lo, hi, nd=2):
    return round(rng.uniform(lo, hi), nd)

def gen_quad(rng, dim):
    return {'a': [rng.choice([0.5, 1.0, 2.0, 10.0, 100.0]) for _ in range(dim)],
            'c': [r2(rng, -3, 3) for _ in range(dim)],
            'f0': rng.choice([0.0, 0.0, 1.5, -2.0])}

def gen_cost(rng, dim, models=None, vector=False):
    models = models or ['quad', 'quad', 'rosen', 'abs', 'quant', 'infband', 'maxabs', 'quant']
    m = rng.choice(models)
    if vector: m = 'vector'
    if m == 'quad':
        p = gen_quad(rng, dim)
    elif m == 'rosen':
        p = {'k': rng.choice([1.0, 10.0, 100.0])}
    elif m in ('abs', 'maxabs'):
        p = gen_quad(rng, dim)
    elif m == 'quant':
        p = gen_quad(rng, dim); p['q'] = rng.choice([0.25, 0.5, 1.0, 4.0])
    elif m == 'infband':
        p = gen_quad(rng, dim)
        lo = r2(rng, -2, 2); p['band'] = [lo, lo + rng.choice([0.1, 0.5, 1.0])]
        p['i'] = rng.randrange(dim)
    elif m == 'nanhole':
        p = gen_quad(rng, dim)
        p['hole'] = [r2(rng, -2, 2) for _ in range(dim)]; p['r2'] = rng.choice([0.01, 0.25])
    elif m == 'vector':
        p = {'parts': [gen_quad(rng, dim) for _ in range(rng.choice([1, 2, 2, 3]))]}      # (1: an array-valued cost with a single component)
    elif m == 'flat':
        p = gen_quad(rng, dim)
        k = rng.randrange(1, max(2, dim))
        p['flat'] = sorted(rng.sample(range(dim), min(k, dim - 1) if dim > 1 else 0))
    elif m == 'slab':
        p = gen_quad(rng, dim)
        lo = r2(rng, -2, 2); p['slab'] = [lo, lo + rng.choice([0.5, 1.0, 2.0])]
        p['i'] = rng.randrange(dim); p['H'] = rng.choice([10.0, 100.0, 1e4])
    elif m == 'tied':
        p = gen_quad(rng, dim)
        i, j = rng.sample(range(dim), 2) if dim > 1 else (0, 0)
        p['pairs'] = [[i, j, 0.0, 50.0]]
    else:
        raise ValueError(m)
    return {'model': m, 'params': p}

def gen_x0(rng, dim):
    return [rng.choice([0.0, 1.0, -1.0, r2(rng, -4, 4), r2(rng, -4, 4)]) for _ in range(dim)]

def gen_box(rng, dim, x0=None, exotic=True):
    lo, hi = [], []
    for i in range(dim):
        l = r2(rng, -5, 1, 1)
        w = rng.choice([0.5, 1.0, 2.0, 4.0, 8.0])
        h = round(l + w, 1)
        if exotic:
            k = rng.random()
            if k > 0.80:                            # bounds that need all 17 significant digits (1/3, 0.1+0.2, raw draws)
                l = rng.choice([1.0 / 3.0, -2.0 / 3.0, 0.1 + 0.2, rng.uniform(-5, 1), rng.uniform(-5, 1)])
                h = l + rng.choice([1.0 / 3.0, 2.0 / 3.0, rng.uniform(0.2, 4.0), 0.0 if k > 0.98 else 1.0 / 7.0])
            if k < 0.06: h = l                      # degenerate side
            elif k < 0.12: l = -inf                 # one-sided
            elif k < 0.18: h = inf
            elif k < 0.21: l, h = -inf, inf
        lo.append(l); hi.append(h)
    return lo, hi

def inside(rng, lo, hi):
    x = []
    for l, h in zip(lo, hi):
        a = l if l > -inf else (h - 5.0 if h < inf else -5.0)
        b = h if h < inf else (l + 5.0 if l > -inf else 5.0)
        x.append(round(rng.uniform(a, b), 2) if b > a else a)
    return x

def gen_constraint(rng, dim, box=None, forms=('pure', 'inplace', 'alias'), families=None):
    """deterministic, idempotent constraint that maps the box (if any) into itself"""
    fams = families or ['pin', 'clamp', 'round', 'tie', 'sort']
    if dim < 2: fams = [f for f in fams if f not in ('tie', 'sort')]
    fam = rng.choice(fams)
    lo, hi = box if box else ([-inf] * dim, [inf] * dim)
    def fin(i):
        return lo[i] > -inf and hi[i] < inf
    if fam == 'pin':
        i = rng.randrange(dim)
        if box: v = inside(rng, [lo[i]], [hi[i]])[0]
        else: v = r2(rng, -2, 2)
        p = {'at': [[i, v]]}
    elif fam == 'clamp':
        clo, chi = [], []
        for i in range(dim):
            a = lo[i] if lo[i] > -inf else -6.0
            b = hi[i] if hi[i] < inf else 6.0
            if rng.random() < 0.5 and b > a:
                m1 = round(rng.uniform(a, b), 2); m2 = round(rng.uniform(a, b), 2)
                a2, b2 = min(m1, m2), max(m1, m2)
            else:
                a2, b2 = lo[i], hi[i]
            clo.append(a2); chi.append(b2)
        p = {'lo': clo, 'hi': chi}
    elif fam == 'round':
        idx = sorted(rng.sample(range(dim), rng.randrange(1, dim + 1)))
        # rounding maps the box into itself only if the bounds are integers (or infinite)
        if box:
            idx = [i for i in idx if all(b in (inf, -inf) or float(b).is_integer() for b in (lo[i], hi[i]))]
        if not idx:
            return gen_constraint(rng, dim, box, forms, [f for f in fams if f != 'round'] or ['pin'])
        p = {'idx': idx, 'step': 1.0}
    elif fam == 'tie':
        i, j = rng.sample(range(dim), 2)
        a, b = 1.0, 0.0
        if box:
            if not (lo[j] <= lo[i] and hi[i] <= hi[j]):
                # x[j] = x[i] keeps x[j] in its side only if side i is inside side j
                return gen_constraint(rng, dim, box, forms, [f for f in fams if f != 'tie'] or ['pin'])
        else:
            a = rng.choice([1.0, -1.0, 2.0, 0.5]); b = rng.choice([0.0, 1.0, -0.5])
        p = {'ties': [[i, j, a, b]]}
    elif fam == 'sort':
        if box and not (len(set(lo)) == 1 and len(set(hi)) == 1):
            return gen_constraint(rng, dim, box, forms, [f for f in fams if f != 'sort'] or ['pin'])
        p = {}
    return {'family': fam, 'form': rng.choice(list(forms)), 'params': p}

def gen_penalty(rng, dim):
    k = rng.choice(['lin_ineq', 'ball', 'lin_ineq', 'const'])
    if k == 'lin_ineq':
        p = {'w': [rng.choice([-1.0, 0.0, 1.0, 2.0]) for _ in range(dim)], 'b': r2(rng, -2, 2),
             'k': rng.choice([1.0, 10.0, 100.0])}
    elif k == 'ball':
        p = {'c': [r2(rng, -2, 2) for _ in range(dim)], 'r2': rng.choice([0.25, 1.0, 4.0]),
             'k': rng.choice([1.0, 10.0])}
    else:
        p = {'k': rng.choice([0.5, 3.0])}
    return {'kind': k, 'params': p}

def gen_simple_term(rng, solver):
    """a termination that lets short runs stop (or not) for varied reasons"""
    c = rng.random()
    if c < 0.25: return {'t': 'VTR', 'kw': {'tolerance': rng.choice([1e-2, 1.0, 5.0]), 'target': rng.choice([0.0, 0.0, 1.5])}}
    if c < 0.45: return {'t': 'COG', 'kw': {'tolerance': rng.choice([1e-6, 1e-2, 0.5]), 'generations': rng.choice([1, 2, 3, 5])}}
    if c < 0.6: return {'t': 'NCOG', 'kw': {'tolerance': rng.choice([1e-4, 1e-2]), 'generations': rng.choice([1, 2, 4])}}
    if c < 0.75:
        if solver == 'Powell':      # CandidateRelativeTolerance is documented as invalid for nPop < 2
            return {'t': 'NCOG', 'kw': {'tolerance': rng.choice([1e-4, 1e-2]), 'generations': 2}}
        return {'t': 'CRT', 'kw': {'xtol': rng.choice([1e-4, 1e-2, 0.3]), 'ftol': rng.choice([1e-4, 1e-2, 0.3])}}
    if c < 0.85: return {'t': 'VTRCOG', 'kw': {'ftol': 1e-2, 'gtol': 1e-4, 'generations': rng.choice([2, 4])}}
    return None   # keep the solver's default


def compatible(con, box):
    """does the constraint map the box into itself (sufficient syntactic test)"""
    if con is None or box is None: return True
    lo, hi = box
    fam, p = con['family'], con['params']
    if fam == 'pin':
        return all(lo[i] <= v <= hi[i] for i, v in p['at'])
    if fam == 'clamp':
        return all(lo[i] <= a <= b <= hi[i] for i, (a, b) in enumerate(zip(p['lo'], p['hi'])))
    if fam == 'round':
        return all(b in (inf, -inf) or float(b).is_integer() for i in p['idx'] for b in (lo[i], hi[i]))
    if fam == 'tie':
        return all(a == 1.0 and b == 0.0 and lo[j] <= lo[i] and hi[i] <= hi[j] for (i, j, a, b) in p['ties'])
    if fam == 'sort':
        return len(set(lo)) == 1 and len(set(hi)) == 1
    if fam in ('identity', 'measure_norm'): return True
    if fam == 'chain':
        return all(compatible(c, box) for c in p['of'])
    return False


def gen_prim_term(rng, solver, clock=True, interrupt=True, gnt=False):
    pool = ['VTR', 'COG', 'NCOG', 'SolutionImprovement', 'NormalizedCostTarget', 'VTRCOG',
            'PopulationSpread', 'EvaluationLimits', 'COG', 'NCOG', 'VTR']
    if gnt: pool += ['GradientNormTolerance', 'GradientNormTolerance', 'CollapseAt', 'CollapseAs']
    if solver != 'Powell': pool.append('CRT')
    if clock: pool += ['TimeLimits', 'TimeLimits']
    if interrupt: pool.append('SolverInterrupt')
    t = rng.choice(pool)
    tol = lambda: rng.choice([1e-8, 1e-4, 1e-2, 0.1, 1.0, 5.0, 50.0])
    gens = lambda: rng.choice([0, 1, 1, 2, 2, 3, 5, None, 50])
    if t == 'VTR': kw = {'tolerance': tol(), 'target': rng.choice([0.0, 0.0, 1.5, -2.0])}
    elif t in ('COG', 'NCOG'): kw = {'tolerance': tol(), 'generations': gens()}
    elif t == 'CRT': kw = {'xtol': tol(), 'ftol': tol()}
    elif t == 'SolutionImprovement': kw = {'tolerance': tol()}
    elif t == 'NormalizedCostTarget':
        kw = {'fval': rng.choice([None, None, 0.0, 1.5, -2.0]), 'tolerance': tol(), 'generations': gens()}
    elif t == 'VTRCOG': kw = {'ftol': tol(), 'gtol': tol(), 'generations': gens(), 'target': rng.choice([0.0, 1.5])}
    elif t == 'PopulationSpread': kw = {'tolerance': tol()}
    elif t == 'EvaluationLimits':
        kw = {'generations': rng.choice([None, 0, 1, 3, 8, 20]), 'evaluations': rng.choice([None, 1, 10, 40, 200])}
    elif t in ('CollapseAt', 'CollapseAs'):
        # (what they detect is C11's business; here they are conditions like any other: info/'self' forms, rebuild from
        # type()/state(), and being left untouched when a copy with a grown mask is derived from them)
        kw = {'tolerance': rng.choice([1e-2, 0.1, 1.0, 10.0]), 'generations': rng.choice([1, 2, 3]),
              'mask': {'__set__': sorted(rng.sample(range(6), rng.randint(1, 2)))} if rng.random() < 0.7 else None}
    elif t == 'GradientNormTolerance':
        kw = {'tolerance': rng.choice([1e-3, 0.1, 1.0, 10.0, 100.0]), 'norm': rng.choice(['inf', 'inf', 2, 1])}
    elif t == 'TimeLimits':
        kw = {'seconds': rng.choice([0, 1e-3, 1, 60, 3600, 86400]), 'system': rng.choice([None, True, False])}
    else: kw = {}
    return {'t': t, 'kw': kw}

def gen_term_tree(rng, solver, depth=3, clock=True, interrupt=True, _count=None, top=True, gnt=False):
    """And/Or/When tree; with small probability a member is a reference to a node built
    earlier in the same tree (the same condition object listed twice)"""
    if _count is None: _count = [0]
    if not top and _count[0] > 0 and rng.random() < 0.15:
        return {'t': 'ref', 'i': rng.randrange(_count[0])}
    if depth <= 0 or rng.random() < 0.45:
        _count[0] += 1
        return gen_prim_term(rng, solver, clock, interrupt, gnt)
    t = rng.choice(['And', 'Or', 'Or', 'When', 'And'])
    n = 1 if t == 'When' else rng.choice([1, 2, 2, 3])
    kids = [gen_term_tree(rng, solver, depth - 1, clock, interrupt, _count, False, gnt) for _ in range(n)]
    _count[0] += 1
    return {'t': t, 'of': kids}
