"""SimMap -- the map peer handed to SetMapper.

Contract of a map: map(f, *seqs, **kw) -> list, results in ITEM order, each item evaluated
exactly once (unless a fault says otherwise).  Modes:
  serial / reversed / shuffled   one task, item order from the 'sched' stream
  threads                        every item is a task (a real thread), but only the thread holding
                                 the baton runs; a task parks at every seam crossing (cost,
                                 constraint, penalty, callback, monitor file ops, scripted rng) and,
                                 with preempt_lines > 0, at seeded line events inside /repo/mystic;
                                 the seeded scheduler picks who runs next.  `workers` bounds the
                                 number of items in flight.
  process                        (func, item) and the result are round-tripped through dill, as a
                                 process pool would; each worker gets its own copy of the library
                                 RNG state; in-place mutation of arguments is invisible to the caller.
Faults (fault-injecting configurations only): worker_dies, slow_item, retry_item.
"""
import sys, threading, random as _random
import numpy
from . import env, REPO
from .env import sub_rng

MYSTIC_DIR = REPO.rstrip('/') + '/mystic'


class BatonSched(object):
    """cooperative scheduling of real threads: which thread runs is never left to the OS"""
    def __init__(self, run, rng, preempt_lines=0.0):
        self.run = run; self.rng = rng
        self.preempt = preempt_lines
        self.main_evt = threading.Event()
        self.tasks = []
        self.current = None
        self.choices = []          # the recorded schedule: task ids in the order they were resumed
        self.switches = 0
        self.line_events = 0

    class Task(object):
        def __init__(self, tid, fn):
            self.tid = tid; self.fn = fn
            self.evt = threading.Event()
            self.done = False; self.started = False
            self.result = None; self.exc = None
            self.thread = None

    def yield_point(self, kind):
        t = self.current
        if t is None or threading.current_thread() is not t.thread:
            return                      # the scheduler (caller) itself crossing a seam
        self.switches += 1
        self.main_evt.set()
        t.evt.wait(); t.evt.clear()

    def _tracer(self, frame, event, arg):
        if event != 'call': return None
        if not frame.f_code.co_filename.startswith(MYSTIC_DIR): return None
        return self._line

    def _line(self, frame, event, arg):
        if event == 'line':
            self.line_events += 1
            # seeded subset of line events become pre-emption points
            if self.rng.random() < self.preempt:
                self.run.counts['line'] += 1
                self.yield_point('line')
        return self._line

    def _body(self, t):
        t.evt.wait(); t.evt.clear()
        if self.preempt > 0: sys.settrace(self._tracer)
        try:
            t.result = t.fn()
        except BaseException as e:
            t.exc = e
        finally:
            sys.settrace(None)
            t.done = True
            self.main_evt.set()

    def run_all(self, fns, workers):
        """run the callables as interleaved tasks; returns list of Task (in item order)"""
        run = self.run
        tasks = [self.Task(i, fn) for i, fn in enumerate(fns)]
        self.tasks = tasks
        for t in tasks:
            t.thread = threading.Thread(target=self._body, args=(t,), name='simtask-%d' % t.tid)
            t.thread.daemon = True
        saved_sched, saved_task = run.sched, run.task
        run.sched = self
        pending = list(tasks)      # not yet started, in item order (a pool hands items out in order)
        inflight = []
        try:
            while pending or inflight:
                # a free worker takes the next item
                while pending and len(inflight) < workers:
                    t = pending.pop(0); t.thread.start(); t.started = True; inflight.append(t)
                t = inflight[self.rng.randrange(len(inflight))]
                self.choices.append(t.tid)
                self.current = t; run.task = t.tid
                self.main_evt.clear()
                t.evt.set()
                self.main_evt.wait()
                self.current = None
                if t.done:
                    inflight.remove(t)
                    if isinstance(t.exc, (env.SimHang, env.SimCrash)):
                        break
        finally:
            run.sched, run.task = saved_sched, saved_task
            # never leave a parked thread behind: let stragglers run to completion serially -- but within a bounded
            # real time: a task that spins without crossing a seam (the wall-clock guard brought us here) is abandoned
            # (the threads are daemons) rather than waited for
            import time as _t
            deadline = _t.monotonic() + 20.0
            for t in tasks:
                if t.started and not t.done:
                    self.current = t
                    while not t.done and _t.monotonic() < deadline:
                        self.main_evt.clear(); t.evt.set(); self.main_evt.wait(2)
                    self.current = None
        return tasks


class SimMap(object):
    """picklable handle (spec only); all state lives in the current Run"""
    def __init__(self, spec):
        self.spec = dict(spec)
    def __call__(self, func, *seqs, **kwds):
        run = env.CUR
        spec = self.spec
        mode = spec.get('mode', 'serial')
        items = list(zip(*seqs))
        n = len(items)
        run.counts['map'] += 1
        nmap = run.counts['map']
        if run.map_budget is not None and nmap > run.map_budget:
            raise env.SimHang("budget of map calls exceeded: this is map call #%d of the run (an ensemble with a generation limit "
                              "G needs at most G+2 of them per Solve)" % nmap)
        rng = sub_rng(run.seed, 'sched/%s/%d' % (spec.get('salt', 0), nmap))
        run.probe('map.' + mode)
        fault = run.faults.get(('map', nmap))
        results = [None] * n

        def call(i, f=func):
            saved = run.task
            run.task = i
            try:
                return f(*items[i])
            finally:
                run.task = saved

        if mode in ('serial', 'reversed', 'shuffled'):
            order = list(range(n))
            if mode == 'reversed': order.reverse()
            elif mode == 'shuffled': rng.shuffle(order)
            dies_after = None
            if fault and fault['kind'] == 'worker_dies':
                dies_after = fault.get('after', n // 2); run.fired['worker_dies'] += 1
            for k, i in enumerate(order):
                if dies_after is not None and k >= dies_after:
                    raise env.SimFault('a map worker was lost after %d of %d items' % (k, n))
                results[i] = call(i)
                if fault and fault['kind'] == 'retry_item' and fault.get('item', 0) % n == i:
                    run.fired['retry_item'] += 1
                    results[i] = call(i)          # the pool re-executes an item whose worker was lost
                if fault and fault['kind'] == 'slow_item' and fault.get('item', 0) % n == i:
                    run.fired['slow_item'] += 1
                    run.clock.advance(float(fault.get('dt', 60.0)))
            run.trace.append(('map', nmap, mode, tuple(order)))
            return results

        if mode == 'process':
            import dill
            order = list(range(n))
            rng.shuffle(order)              # completion order of a pool is arbitrary
            parent_state = (_random.getstate(), numpy.random.get_state())
            for i in order:
                blob = dill.dumps((func, items[i]))
                f2, a2 = dill.loads(blob)
                # a worker process has its own RNG, seeded independently of the parent's state
                _random.seed(rng.randrange(1 << 30)); numpy.random.seed(rng.randrange(1 << 30))
                saved = run.task; run.task = i
                try:
                    r = f2(*a2)
                finally:
                    run.task = saved
                results[i] = dill.loads(dill.dumps(r))
            _random.setstate(parent_state[0]); numpy.random.set_state(parent_state[1])
            run.trace.append(('map', nmap, mode, tuple(order)))
            return results

        if mode == 'threads':
            sched = BatonSched(run, rng, spec.get('preempt_lines', 0.0))
            fns = [(lambda i=i: func(*items[i])) for i in range(n)]
            tasks = sched.run_all(fns, max(1, int(spec.get('workers', n or 1))))
            run.sched_sigs.append(tuple(sched.choices))
            run.stats_switches += sched.switches
            run.stats_lines += sched.line_events
            run.trace.append(('map', nmap, mode, len(sched.choices)))
            for t in tasks:
                if t.exc is not None:
                    raise t.exc
            return [t.result for t in tasks]

        raise env.HarnessError('unknown map mode %r' % mode)


def make_map(spec):
    if spec is None or spec.get('mode') == 'python_map':
        from mystic.python_map import python_map
        return python_map
    return SimMap(spec)
