"""Solver harness: build a solver from a plan, execute operations, observe, call oracles."""
import io, os, sys, copy, contextlib, time as _time
import random as _random
import numpy

from . import env, observe
from .env import SimCost, SimConstraint, SimPenalty, SimCallback, HarnessError

SOLVERS = {'NM': 'NelderMeadSimplexSolver', 'Powell': 'PowellDirectionalSolver',
           'DE': 'DifferentialEvolutionSolver', 'DE2': 'DifferentialEvolutionSolver2'}

TERM_ALIAS = {'VTR': 'VTR', 'COG': 'ChangeOverGeneration', 'NCOG': 'NormalizedChangeOverGeneration',
              'CRT': 'CandidateRelativeTolerance', 'VTRCOG': 'VTRChangeOverGeneration'}

def build_term(spec):
    import mystic.termination as mt
    if spec is None: return None
    t = spec['t']
    if t in ('And', 'Or', 'When'):
        return getattr(mt, t)(*[build_term(s) for s in spec['of']])
    kw = dict(spec.get('kw', {}))
    for k, v in list(kw.items()):
        if v == 'inf': kw[k] = float('inf')
        if isinstance(v, dict) and '__set__' in v: kw[k] = set(v['__set__'])
    return getattr(mt, TERM_ALIAS.get(t, t))(**kw)

REDUCERS = {'max': max, 'min': min, 'first': (lambda v: v[0]), 'sum': sum,
            'sumsq': (lambda v: sum(float(a) * float(a) for a in v)), 'sumabs': (lambda v: sum(abs(float(a)) for a in v))}

def reducer_fn(name):
    return REDUCERS[name]


class Violation(object):
    def __init__(self, prop, kind, where, tags=None, detail=''):
        self.prop = prop; self.kind = kind; self.where = where
        self.tags = dict(tags or {}); self.detail = detail
    def sig(self):
        return (self.prop, self.kind, self.where)
    def as_dict(self):
        return {'property': self.prop, 'kind': self.kind, 'where': self.where,
                'tags': self.tags, 'detail': self.detail}
    def __repr__(self):
        return "Violation(%s,%s,%s,%s: %s)" % (self.prop, self.kind, self.where, self.tags, self.detail)


@contextlib.contextmanager
def patched_world(run):
    """install the simulator's seams for the duration of one run"""
    import time, builtins
    import mystic._signal as ms
    saved = (time.time, time.perf_counter, time.process_time, ms.signal, builtins.input,
             sys.stdout, numpy.geterr())
    time.time = env.sim_time
    time.perf_counter = env.sim_perf_counter
    time.process_time = env.sim_process_time
    ms.signal = run.signal.signal
    builtins.input = run.signal.input
    out = io.StringIO()
    sys.stdout = out
    run.stdout = out
    # observation seam: count the _Step executions of the real solver classes
    import mystic.solvers as mso
    orig_steps = []
    def _mk(f):
        def _Step(self, *a, **k):
            run.counts['_Step.begin'] += 1
            if run.pre_step is not None: run.pre_step(self)
            r = f(self, *a, **k)
            run.counts['_Step.done'] += 1
            return r
        _Step.__wrapped__ = f
        return _Step
    for name in SOLVERS.values():
        cls = getattr(mso, name)
        orig_steps.append((cls, cls.__dict__['_Step']))
        cls._Step = _mk(cls.__dict__['_Step'])
    try:
        yield
    finally:
        for cls, f in orig_steps:
            cls._Step = f
        (time.time, time.perf_counter, time.process_time, ms.signal, builtins.input,
         sys.stdout) = saved[:6]
        numpy.seterr(**saved[6])


class Harness(object):
    """drives one or more solver identities through a plan, under a Run"""
    def __init__(self, run, plan, oracles=()):
        self.run = run
        self.plan = plan
        self.oracles = list(oracles)
        self.violations = []
        self.solvers = {}
        self.cur = 'orig'
        self.cost = None
        self.constraint = None      # currently installed SimConstraint (or None)
        self.penalty = None
        self.reducer = None
        self.bounds = None          # dict(lo,hi,tight,clip) currently in force, or None
        self.term_spec = None
        self.steps_executed = 0     # number of executed _Step (callbacks seen)
        self.real_steps = 0         # number of completed _Step executions (class-level counter)
        self.step_snaps = []        # snapshot taken at each executed _Step (from the callback)
        self.op_index = -1
        self.in_solve = False
        self.history = []           # (op_index, op, result)
        self.settings_epoch = 0     # bumped on every objective-defining Set*
        self.epoch_at_first_step = None
        self.started = False        # first Step executed
        self.tags = {}
        self.passed_cost = False
        run.on_callback = self._on_callback
        run.pre_step = self._pre_step
        self.term_node = None       # termref.Node of the installed termination (None = solver default)
        self.term_twin = None
        self.forest = []            # extra (node, twin) pairs evaluated by the harness only

    # -- helpers
    @property
    def solver(self):
        return self.solvers[self.cur]

    def violate(self, prop, kind, where=None, detail='', **tags):
        t = dict(self.tags); t.update(tags)
        v = Violation(prop, kind, where or self.plan.get('solver', '?'), t, detail)
        self.violations.append(v)
        return v

    def snap(self, solver=None, monitors=True):
        s = observe.solver_snap(solver or self.solver, monitors=monitors)
        c = self.run.clock
        s['_clock'] = (c.wall, c.mono, c.cpu)
        s['trialSolution'] = observe.canon(getattr(solver or self.solver, 'trialSolution', None))
        s['_cost_spec'] = self.cost.spec if self.cost is not None else None
        return s

    def thinned(self, step_no):
        """long runs (a Solve that goes to mystic's default limits): after THIN_AFTER executed steps only
        every THIN_EVERY-th iteration boundary is snapshotted and judged (snapshots are O(history))"""
        return step_no > self.THIN_AFTER and step_no % self.THIN_EVERY != 0

    THIN_AFTER = 256
    THIN_EVERY = 16

    def _pre_step(self, solver):
        if not any(getattr(o, 'before_step', None) for o in self.oracles): return
        if self.thinned(self.steps_executed + 1): return
        self.run.observing = True
        try:
            s = self.snap(solver, monitors=False)
            s['_evals_logged'] = len(self.run.evals)
            for o in self.oracles:
                f = getattr(o, 'before_step', None)
                if f: f(self, s, solver)
        finally:
            self.run.observing = False

    def clock_now(self):
        c = self.run.clock
        return (c.wall, c.mono, c.cpu)

    def _on_callback(self, xt):
        self.steps_executed += 1
        if self.thinned(self.steps_executed):
            self.run.probe('thinned_step')
            return
        self.run.observing = True
        try:
            self._on_callback2(xt)
        finally:
            self.run.observing = False

    def _on_callback2(self, xt):
        s = self.snap()
        s['_evals_logged'] = len(self.run.evals)
        s['_step_no'] = self.steps_executed
        s['_in_solve'] = self.in_solve
        s['_cb_x'] = xt
        self.step_snaps.append(s)
        for o in self.oracles:
            f = getattr(o, 'on_step', None)
            if f: f(self, s)

    # -- building
    def build(self):
        import mystic.solvers as ms
        p = self.plan
        cls = getattr(ms, SOLVERS[p['solver']])
        dim = p['dim']
        if p['solver'] in ('DE', 'DE2'):
            s = cls(dim, p.get('npop', 4))
        else:
            s = cls(dim)
        self.solvers['orig'] = s
        self.cost = SimCost(p['cost'])
        self.tags.update(solver=p['solver'], cost=p['cost']['model'])
        _random.seed(p.get('lib_seed', 0))
        numpy.random.seed(p.get('lib_seed', 0) % (2**32))
        if p.get('forest'):
            from . import termref
            self.run.observing = True
            try:
                for spec in p['forest']:
                    n = termref.build(spec, self.clock_now)
                    try: tw = termref.rebuild(n.obj)
                    except Exception as e: tw = e
                    self.forest.append((n, tw))
            finally:
                self.run.observing = False
        return s

    # -- operations
    def do(self, op):
        self.op_index += 1
        kind = op['op']
        f = getattr(self, 'op_' + kind)
        res = {}
        before = self.steps_executed
        for o in self.oracles:
            g = getattr(o, 'before_op', None)
            if g: g(self, op)
        try:
            r = f(op)
            if r is not None: res['ret'] = r
        except (env.SimHang, env.SimCrash):
            raise
        except KeyboardInterrupt:
            res['exc'] = 'KeyboardInterrupt'
        except Exception as e:
            res['exc'] = type(e).__name__
            res['exc_msg'] = str(e)[:200]
            self.run.probe('op_raised.%s.%s.%s' % (kind, op.get('what', ''), type(e).__name__))
            if os.environ.get('VERIF_DEBUG'):
                import traceback; traceback.print_exc(file=sys.stderr)
        res['steps'] = self.steps_executed - before
        self.history.append((self.op_index, op, res))
        self.run.trace.append(('op', self.op_index, kind, observe.canon(res.get('ret')),
                               res.get('exc')))
        self.run.observing = True
        try:
            for o in self.oracles:
                g = getattr(o, 'after_op', None)
                if g: g(self, op, res)
        finally:
            self.run.observing = False
        return res

    def op_set(self, op):
        s = self.solver
        what = op['what']; arg = op.get('arg')
        if what == 'init':
            if 'x0' in arg:
                kw = {}
                if 'radius' in arg: kw['radius'] = arg['radius']
                s.SetInitialPoints(list(arg['x0']), **kw)
            else:
                s.SetRandomInitialPoints(list(arg['lo']), list(arg['hi']))
        elif what == 'bounds':
            if arg is None or arg is False:
                s.SetStrictRanges(False)     # note: SetStrictRanges(None) == default box in mystic
                self.bounds = None
            else:
                kw = {}
                if 'tight' in arg: kw['tight'] = arg['tight']
                if 'clip' in arg: kw['clip'] = arg['clip']
                s.SetStrictRanges(list(arg['lo']), list(arg['hi']), **kw)
                self.bounds = dict(arg)
            self.settings_epoch += 1
        elif what == 'constraint':
            self.constraint = SimConstraint(arg) if arg else None
            s.SetConstraints(self.constraint)
            self.settings_epoch += 1
        elif what == 'penalty':
            self.penalty = SimPenalty(arg) if arg else None
            s.SetPenalty(self.penalty)
            self.settings_epoch += 1
        elif what == 'reducer':
            self.reducer = arg
            s.SetReducer(reducer_fn(arg) if arg else None, arraylike=True)
            self.settings_epoch += 1
        elif what == 'termination':
            from . import termref
            self.term_spec = arg
            self.term_node = termref.build(arg, self.clock_now)
            s.SetTermination(self.term_node.obj)
            self.run.observing = True
            try: self.term_twin = termref.rebuild(self.term_node.obj)
            except Exception as e: self.term_twin = e
            finally: self.run.observing = False
        elif what == 'limits':
            g, e = arg[0], arg[1]
            new = bool(arg[2]) if len(arg) > 2 else False
            s.SetEvaluationLimits(g, e, new=new)
        elif what == 'stepmon':
            s.SetGenerationMonitor(self.make_monitor(arg), new=bool(arg.get('new', False)))
            self._stepmon_spec = dict(arg)
        elif what == 'evalmon':
            s.SetEvaluationMonitor(self.make_monitor(arg), new=bool(arg.get('new', False)))
            self._evalmon_spec = dict(arg)
        elif what == 'objective':
            if arg:                               # a different objective from here on
                self.cost = SimCost(arg)
            s.SetObjective(self.cost)
            self.passed_cost = True
        elif what == 'handler':
            if arg: s.enable_signal_handler()
            else: s.disable_signal_handler()
        elif what == 'save':
            if arg is None: s.SetSaveFrequency(None)
            else:
                self._save_path = self.run.fs.path(arg.get('file', 'ckpt.pkl'))
                s.SetSaveFrequency(arg['every'], self._save_path)
        elif what == 'mapper':
            from . import maps
            s.SetMapper(maps.make_map(arg))
        elif what == 'de':
            # DE knobs are sticky kwargs of Step/Solve; stash for the next step
            self.de_kw = dict(arg)
        else:
            raise HarnessError("unknown set %r" % what)

    def make_monitor(self, arg):
        import mystic.monitors as mm
        kind = arg.get('kind', 'Monitor')
        if kind == 'Monitor': m = mm.Monitor()
        elif kind == 'Verbose': m = mm.VerboseMonitor(arg.get('interval', 1))
        elif kind == 'Logging':
            m = mm.LoggingMonitor(arg.get('interval', 1), filename=self.run.fs.path(arg.get('file', 'log.txt')))
        elif kind == 'Null': m = mm.Null()
        else: raise HarnessError("monitor kind %r" % kind)
        for i in range(arg.get('prefill', 0)):      # a monitor that already holds foreign records
            m([float(i)] * self.plan['dim'], 1000.0 + i)
        return m

    def _step_kw(self, op):
        kw = {}
        if op.get('callback', True):
            kw['callback'] = SimCallback()
        dk = getattr(self, 'de_kw', None)
        if dk and self.plan['solver'] in ('DE', 'DE2'):
            import mystic.strategy as st
            if 'strategy' in dk: kw['strategy'] = getattr(st, dk['strategy'])
            if 'CR' in dk: kw['CrossProbability'] = dk['CR']
            if 'F' in dk: kw['ScalingFactor'] = dk['F']
        return kw

    def _cost_arg(self):
        # hand the cost to mystic the first time; afterwards Step()/Solve() re-use it
        if not self.passed_cost or self.plan.get('always_pass_cost'):
            self.passed_cost = True
            return self.cost
        return None

    def _sticky_kw(self, op):
        """Step(constraints=..., penalty=...): mystic's sticky keyword settings (they reconfigure the solver from inside
        the call that also runs the iteration).  The oracles are told first, as for the equivalent Set* call: the new
        setting is in force for the evaluations of this very iteration."""
        kw = {}
        self._sticky_undo = []
        for key, what, cls in (('constraint_kw', 'constraint', SimConstraint), ('penalty_kw', 'penalty', SimPenalty)):
            if key in op:
                arg = op[key]
                peer = cls(arg) if arg else None
                old_peer = self.constraint if what == 'constraint' else self.penalty
                self._sticky_undo.append((what, old_peer))
                if what == 'constraint': self.constraint = peer
                else: self.penalty = peer
                self.settings_epoch += 1
                synth = {'op': 'set', 'what': what, 'arg': arg, 'via': 'step_keyword'}
                self.run.observing = True
                try:
                    for o in self.oracles:
                        g = getattr(o, 'after_op', None)
                        if g: g(self, synth, {})
                finally:
                    self.run.observing = False
                kw['constraints' if what == 'constraint' else 'penalty'] = peer
                self.run.probe('step_keyword.%s' % what)
        # Step(EvaluationMonitor=m) / Step(StepMonitor=m): the other two sticky keywords (equivalent to the Set*Monitor call with
        # new=False, made from inside the Step that runs the next iteration)
        for key, what, kwname in (('evalmon_kw', 'evalmon', 'EvaluationMonitor'), ('stepmon_kw', 'stepmon', 'StepMonitor')):
            if key in op:
                arg = dict(op[key]); arg['new'] = False
                self._sticky_undo.append((what, getattr(self, '_%s_spec' % what, None)))
                setattr(self, '_%s_spec' % what, arg)
                synth = {'op': 'set', 'what': what, 'arg': arg, 'via': 'step_keyword'}
                self.run.observing = True
                try:
                    for o in self.oracles:
                        g = getattr(o, 'after_op', None)
                        if g: g(self, synth, {})
                finally:
                    self.run.observing = False
                kw[kwname] = self.make_monitor(arg)
                self.run.probe('step_keyword.%s' % what)
        return kw

    def op_step(self, op):
        rets = []
        sticky = self._sticky_kw(op)
        for i in range(op.get('n', 1)):
            before = self.steps_executed
            kw = self._step_kw(op)
            if i == 0: kw.update(sticky)
            self.run.owner = self.cur
            if not self.started:
                self.epoch_at_first_step = self.settings_epoch
            real0 = self.run.counts['_Step.done']
            msg = self.solver.Step(self._cost_arg(), **kw)
            self.started = True
            self.real_steps += self.run.counts['_Step.done'] - real0
            executed = self.steps_executed - before
            if i == 0 and sticky and not (self.run.counts['_Step.done'] - real0):
                # Step() found the solver already stopped and returned at once: keyword settings are only processed by an
                # iteration that runs, so nothing was installed -- tell the oracles the previous setting is still in force
                for what, old_peer in getattr(self, '_sticky_undo', []):
                    if what in ('evalmon', 'stepmon'):
                        setattr(self, '_%s_spec' % what, old_peer)
                        if what == 'stepmon' or old_peer is None: continue      # (nothing the oracles keep per step monitor; no earlier monitor: base stays)
                        synth = {'op': 'set', 'what': what, 'arg': dict(old_peer, new=False), 'via': 'step_keyword_not_processed'}
                        self.run.observing = True
                        try:
                            for o in self.oracles:
                                g = getattr(o, 'after_op', None)
                                if g: g(self, synth, {})
                        finally:
                            self.run.observing = False
                        continue
                    if what == 'constraint': self.constraint = old_peer
                    else: self.penalty = old_peer
                    synth = {'op': 'set', 'what': what, 'arg': (old_peer.spec if old_peer is not None else None), 'via': 'step_keyword_not_processed'}
                    self.run.observing = True
                    try:
                        for o in self.oracles:
                            g = getattr(o, 'after_op', None)
                            if g: g(self, synth, {})
                    finally:
                        self.run.observing = False
                self.run.probe('step_keyword.not_processed')
            rets.append(observe.canon_msg(msg))
            for o in self.oracles:
                g = getattr(o, 'after_step_call', None)
                if g: g(self, msg, executed)
        return tuple(rets)

    def op_solve(self, op):
        kw = self._step_kw(op)
        if op.get('sigint_callback'):
            kw['sigint_callback'] = SimCallback('sigint')
        self.run.owner = self.cur
        if not self.started:
            self.epoch_at_first_step = self.settings_epoch
        self.in_solve = True
        real0 = self.run.counts['_Step.done']
        before = self.steps_executed
        try:
            self.solver.Solve(self._cost_arg(), **kw)
        finally:
            self.in_solve = False
            self.started = True
            self.real_steps += self.run.counts['_Step.done'] - real0
        for o in self.oracles:
            g = getattr(o, 'after_solve_call', None)
            if g: g(self, self.steps_executed - before)
        return observe.canon_msg(self.peek_term())

    def op_finalize(self, op):
        self.solver.Finalize()

    def op_clock(self, op):
        """simulated time passes while the solver is idle between two calls"""
        self.run.clock.advance(float(op['dt']), cpu=bool(op.get('cpu', True)))
        self.run.probe('op.clock')

    def op_saveload(self, op):
        """the process ends here and a new one resumes from the restart file"""
        from mystic.solvers import LoadSolver
        path = self.run.fs.path('resume-%d.pkl' % self.op_index)
        self.solver.SaveSolver(path)
        self.solvers[self.cur] = LoadSolver(path)
        self.run.probe('op.saveload')

    def op_loadstate(self, op):
        """the process dies here and a new one resumes from the restart file registered with SetSaveFrequency, AS IT STANDS (no
        SaveSolver call): the file is a snapshot of an earlier moment, so the restored solver holds the settings of that moment --
        the oracles are told which box it says it has"""
        import os
        from mystic.solvers import LoadSolver
        path = getattr(self, '_save_path', None)
        if not path or not os.path.exists(path):
            self.run.probe('op.loadstate.no_file'); return
        s2 = LoadSolver(path)
        self.solvers[self.cur] = s2
        self.run.probe('op.loadstate')
        if getattr(s2, '_useStrictRange', False):
            arg = {'lo': [float(v) for v in s2._strictMin], 'hi': [float(v) for v in s2._strictMax]}
            if getattr(s2, '_useTightRange', None) is not None: arg['tight'] = s2._useTightRange
            if getattr(s2, '_useClipRange', None) is not None: arg['clip'] = s2._useClipRange
        else:
            arg = None
        self.bounds = dict(arg) if arg else None
        self.settings_epoch += 1
        synth = {'op': 'set', 'what': 'bounds', 'arg': arg, 'via': 'restored_from_restart_file'}
        self.run.observing = True
        try:
            for o in self.oracles:
                g = getattr(o, 'after_op', None)
                if g: g(self, synth, {})
        finally:
            self.run.observing = False

    def op_copy(self, op):
        import copy
        self.solvers[self.cur] = copy.copy(self.solver) if op.get('shallow', True) else copy.deepcopy(self.solver)
        self.run.probe('op.copy')

    def op_reseed(self, op):
        from mystic.tools import random_seed
        random_seed(self.plan.get('lib_seed', 0) % (2**32))

    def peek_term(self, solver=None):
        """Terminated(info=True) without its side effects on the limits"""
        s = solver or self.solver
        run = self.run
        saved = (s._maxiter, s._maxfun, run.counts.copy(), run.ncross, run.clock.reads)
        fa, run.faults = run.faults, {}
        try:
            return s.Terminated(info=True)
        finally:
            s._maxiter, s._maxfun = saved[0], saved[1]
            run.counts = saved[2]; run.ncross = saved[3]; run.clock.reads = saved[4]
            run.faults = fa

    def finish(self):
        for o in self.oracles:
            g = getattr(o, 'finish', None)
            if g: g(self)
        return self.violations
