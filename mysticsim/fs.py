"""SimFS: real files in a per-run scratch directory behind logging / buffering / fault-injecting
proxies.  A module-global `open` is planted in the mystic modules that do file I/O."""
import os, io, shutil, tempfile, builtins

from . import env

_real_open = builtins.open
SCRATCH_ROOT = '/dev/shm' if os.path.isdir('/dev/shm') else tempfile.gettempdir()

class SimFile(object):
    """proxy over a real file: writes are buffered and become durable at flush()/close();
    every open/write/close is a seam crossing (yield + fault point)."""
    def __init__(self, fs, path, mode, real):
        self.fs = fs; self.path = path; self.mode = mode; self.real = real
        self.pending = []        # buffered chunks (write modes)
        self.closed = False
        self.writing = any(c in mode for c in 'wa+')
        self.binary = 'b' in mode
    # -- write side
    def write(self, data):
        fs = self.fs
        if fs.frozen: return len(data)
        f = fs.run.seam('fs.write')
        if f is not None:
            k = f['kind']
            if k in ('enospc', 'eio'):
                raise env.SimFault(28 if k == 'enospc' else 5, 'injected %s on %s' % (k, os.path.basename(self.path)))
            if k == 'short_write':
                keep = f.get('keep', 0.5)
                cut = int(len(data) * keep)
                self.pending.append(bytes(data[:cut]) if not isinstance(data, str) else data[:cut]); self._flush()
                raise env.SimFault(5, 'injected short write')
        self.pending.append(bytes(data) if isinstance(data, (memoryview, bytearray)) else data)
        if fs.unbuffered: self._flush()
        return len(data)
    def writelines(self, lines):
        for l in lines: self.write(l)
    def _flush(self):
        if self.pending:
            for c in self.pending: self.real.write(c)
            self.pending = []
        self.real.flush()
        self.fs.durable_events += 1
    def flush(self):
        if self.fs.frozen: return
        self.fs.run.seam('fs.flush')
        self._flush()
    def close(self):
        if self.closed: return
        fs = self.fs
        if fs.frozen:
            self.closed = True
            try: self.real.close()
            except Exception: pass
            return
        fs.run.seam('fs.close')
        if self.writing: self._flush()
        self.real.close()
        self.closed = True
        fs.touch(self.path)
    # -- crash support: what reaches the disk when the process dies now
    def crash(self, torn=None):
        if self.closed: return
        if self.writing and torn is not None and self.pending:
            data = self.pending[0][:0].join(self.pending)
            cut = int(len(data) * torn)
            try: self.real.write(data[:cut]); self.real.flush()
            except Exception: pass
        self.pending = []
        try: self.real.close()
        except Exception: pass
        self.closed = True
    # -- read side / misc: delegate
    def read(self, *a): return self.real.read(*a)
    def readline(self, *a): return self.real.readline(*a)
    def readlines(self, *a): return self.real.readlines(*a)
    def __iter__(self): return iter(self.real)
    def seek(self, *a): return self.real.seek(*a)
    def tell(self): return self.real.tell()
    def fileno(self): return self.real.fileno()
    def __enter__(self): return self
    def __exit__(self, *exc): self.close(); return False
    @property
    def name(self): return self.path


def sim_open(path, mode='r', *a, **kw):
    """the `open` planted in mystic's modules; resolves the active run's SimFS"""
    run = env.CUR
    if run is None or run.fs is None:
        return _real_open(path, mode, *a, **kw)
    return run.fs.open(path, mode, *a, **kw)


class SimFS(object):
    MODULES = ('mystic.abstract_solver', 'mystic.solvers', 'mystic.monitors', 'mystic.munge')
    def __init__(self, run, unbuffered=False):
        self.run = run
        self.root = tempfile.mkdtemp(prefix='mysticsim-%d-' % os.getpid(), dir=SCRATCH_ROOT)
        self.frozen = False
        self.subdir = ''
        self.unbuffered = unbuffered
        self.open_files = []
        self.durable_events = 0
        self.opens = 0
        self._planted = []
    def __reduce__(self):
        return (env._current_fs, ())
    def path(self, name):
        d = os.path.join(self.root, self.subdir) if self.subdir else self.root
        if not os.path.isdir(d): os.makedirs(d)
        return os.path.join(d, name)
    def open(self, path, mode='r', *a, **kw):
        if self.frozen:
            raise env.SimCrash('open after crash')
        self.run.seam('fs.open')
        self.opens += 1
        real = _real_open(path, mode, *a, **kw)
        f = SimFile(self, path, mode, real)
        self.open_files.append(f)
        if len(self.open_files) > 64:
            self.open_files = [g for g in self.open_files if not g.closed]
        return f
    def touch(self, path):
        # mtimes come from the simulated clock (import-staleness window under sim control)
        try:
            t = self.run.clock.wall
            os.utime(path, (t, t))
            os.utime(os.path.dirname(path), (t, t))    # directory listing caches key on this
        except OSError:
            pass
    def freeze(self, fault=None):
        """process death: buffered bytes are lost (or a torn prefix survives); later writes dropped"""
        torn = (fault or {}).get('torn')
        for f in self.open_files:
            if not f.closed: f.crash(torn)
        self.frozen = True
    def thaw(self):
        """a new process starts: only durable state survives"""
        self.frozen = False
        self.open_files = []
    def plant(self):
        import importlib
        for name in self.MODULES:
            m = importlib.import_module(name)
            self._planted.append((m, m.__dict__.get('open', None)))
            m.open = sim_open      # a module-level function: picklable by reference
    def unplant(self):
        for m, old in self._planted:
            if old is None:
                try: del m.open
                except AttributeError: pass
            else:
                m.open = old
        self._planted = []
    def cleanup(self):
        self.unplant()
        for f in self.open_files:
            if not f.closed:
                try: f.real.close()
                except Exception: pass
        shutil.rmtree(self.root, ignore_errors=True)
